package vc

import (
	"fmt"
	"math/big"
	"sort"
	"strings"
)

// Sort is an SMT-LIB sort, written out.
type Sort string

const (
	SInt  Sort = "Int"
	SBool Sort = "Bool"
	SStr  Sort = "Str"
	SFlt  Sort = "Flt"
	SAny  Sort = "Any"
)

func ArrSort(elem Sort) Sort { return Sort("(Array Int " + string(elem) + ")") }

func (s Sort) IsArr() bool { return strings.HasPrefix(string(s), "(Array") }
func (s Sort) Elem() Sort {
	_, el := s.arrParts()
	return el
}

// ArrSortK is an array sort with an arbitrary index sort (used for modelled Go maps: key sort -> value sort).
func ArrSortK(key, elem Sort) Sort { return Sort("(Array " + string(key) + " " + string(elem) + ")") }

// Key is the index sort of an array sort.
func (s Sort) Key() Sort {
	k, _ := s.arrParts()
	return k
}

func (s Sort) arrParts() (Sort, Sort) {
	str := strings.TrimSuffix(strings.TrimPrefix(string(s), "(Array "), ")")
	// the index sort is the first token (balanced parentheses)
	depth := 0
	for i := 0; i < len(str); i++ {
		switch str[i] {
		case '(':
			depth++
		case ')':
			depth--
		case ' ':
			if depth == 0 {
				return Sort(str[:i]), Sort(str[i+1:])
			}
		}
	}
	return SInt, Sort(str)
}

// Term is a hash-consed SMT term.
type Term struct {
	Op   string // operator or symbol name; for constants the literal text
	Args []*Term
	Sort Sort
	id   int
	// Var marks a declared (free) constant; Lit marks an integer literal.
	IsVar bool
	Int   *big.Int // non-nil for integer literals
}

type TermStore struct {
	tab   map[string]*Term
	next  int
	Decls map[string]Sort   // free constants
	Funs  map[string]string // uninterpreted function declarations name -> "(args) ret"
	fresh map[string]int
}

func NewTermStore() *TermStore {
	return &TermStore{tab: map[string]*Term{}, Decls: map[string]Sort{}, Funs: map[string]string{}, fresh: map[string]int{}}
}

func (ts *TermStore) mk(op string, sort Sort, args ...*Term) *Term {
	var sb strings.Builder
	sb.WriteString(op)
	sb.WriteByte('|')
	sb.WriteString(string(sort))
	for _, a := range args {
		fmt.Fprintf(&sb, ",%d", a.id)
	}
	k := sb.String()
	if t, ok := ts.tab[k]; ok {
		return t
	}
	ts.next++
	t := &Term{Op: op, Args: args, Sort: sort, id: ts.next}
	ts.tab[k] = t
	return t
}

// Fresh declares a new free constant with a readable unique name.
func (ts *TermStore) Fresh(hint string, sort Sort) *Term {
	hint = sanitize(hint)
	ts.fresh[hint]++
	name := fmt.Sprintf("%s!%d", hint, ts.fresh[hint])
	return ts.Var(name, sort)
}

func (ts *TermStore) Var(name string, sort Sort) *Term {
	t := ts.mk("|"+name+"|", sort)
	t.IsVar = true
	ts.Decls[name] = sort
	return t
}

func sanitize(s string) string {
	var sb strings.Builder
	for _, r := range s {
		if r == '|' || r == '\\' || r == ' ' || r == '\n' || r == '\t' {
			sb.WriteByte('_')
		} else {
			sb.WriteRune(r)
		}
	}
	return sb.String()
}

func (ts *TermStore) IntBig(v *big.Int) *Term {
	var txt string
	if v.Sign() < 0 {
		txt = "(- " + new(big.Int).Neg(v).String() + ")"
	} else {
		txt = v.String()
	}
	t := ts.mk(txt, SInt)
	if t.Int == nil {
		t.Int = new(big.Int).Set(v)
	}
	return t
}
func (ts *TermStore) Int(v int64) *Term { return ts.IntBig(big.NewInt(v)) }

func (ts *TermStore) True() *Term  { return ts.mk("true", SBool) }
func (ts *TermStore) False() *Term { return ts.mk("false", SBool) }
func (ts *TermStore) Bool(b bool) *Term {
	if b {
		return ts.True()
	}
	return ts.False()
}

func (t *Term) IsTrue() bool  { return t.Op == "true" && len(t.Args) == 0 }
func (t *Term) IsFalse() bool { return t.Op == "false" && len(t.Args) == 0 }

func (ts *TermStore) Not(a *Term) *Term {
	if a.IsTrue() {
		return ts.False()
	}
	if a.IsFalse() {
		return ts.True()
	}
	if a.Op == "not" {
		return a.Args[0]
	}
	return ts.mk("not", SBool, a)
}

func (ts *TermStore) And(as ...*Term) *Term {
	var out []*Term
	seen := map[int]bool{}
	for _, a := range as {
		if a.IsTrue() {
			continue
		}
		if a.IsFalse() {
			return ts.False()
		}
		if a.Op == "and" {
			for _, b := range a.Args {
				if !seen[b.id] {
					seen[b.id] = true
					out = append(out, b)
				}
			}
			continue
		}
		if !seen[a.id] {
			seen[a.id] = true
			out = append(out, a)
		}
	}
	if len(out) == 0 {
		return ts.True()
	}
	if len(out) == 1 {
		return out[0]
	}
	return ts.mk("and", SBool, out...)
}

func (ts *TermStore) Or(as ...*Term) *Term {
	var out []*Term
	seen := map[int]bool{}
	for _, a := range as {
		if a.IsFalse() {
			continue
		}
		if a.IsTrue() {
			return ts.True()
		}
		if a.Op == "or" {
			for _, b := range a.Args {
				if !seen[b.id] {
					seen[b.id] = true
					out = append(out, b)
				}
			}
			continue
		}
		if !seen[a.id] {
			seen[a.id] = true
			out = append(out, a)
		}
	}
	if len(out) == 0 {
		return ts.False()
	}
	if len(out) == 1 {
		return out[0]
	}
	for _, a := range out {
		if a.Op == "not" && seen[a.Args[0].id] {
			return ts.True()
		}
	}
	return ts.mk("or", SBool, out...)
}

func (ts *TermStore) Implies(a, b *Term) *Term {
	if a.IsTrue() {
		return b
	}
	if a.IsFalse() || b.IsTrue() || a == b {
		return ts.True()
	}
	if b.IsFalse() {
		return ts.Not(a)
	}
	if a.Op == "and" {
		for _, x := range a.Args {
			if x == b {
				return ts.True()
			}
		}
	}
	return ts.mk("=>", SBool, a, b)
}

func (ts *TermStore) Ite(c, a, b *Term) *Term {
	if c.IsTrue() {
		return a
	}
	if c.IsFalse() {
		return b
	}
	if a == b {
		return a
	}
	if a.Sort != b.Sort {
		panic(fmt.Sprintf("ite sort mismatch %s vs %s (%s / %s)", a.Sort, b.Sort, a, b))
	}
	if a.Sort == SBool {
		if a.IsTrue() && b.IsFalse() {
			return c
		}
		if a.IsFalse() && b.IsTrue() {
			return ts.Not(c)
		}
	}
	return ts.mk("ite", a.Sort, c, a, b)
}

func (ts *TermStore) Eq(a, b *Term) *Term {
	if a == b {
		return ts.True()
	}
	if a.Sort != b.Sort {
		panic(fmt.Sprintf("eq sort mismatch %s vs %s (%s / %s)", a.Sort, b.Sort, a, b))
	}
	if a.Int != nil && b.Int != nil {
		return ts.Bool(a.Int.Cmp(b.Int) == 0)
	}
	if a.Sort == SBool {
		if b.IsTrue() {
			return a
		}
		if b.IsFalse() {
			return ts.Not(a)
		}
		if a.IsTrue() {
			return b
		}
		if a.IsFalse() {
			return ts.Not(b)
		}
	}
	if a.id > b.id {
		a, b = b, a
	}
	return ts.mk("=", SBool, a, b)
}

func (ts *TermStore) Ne(a, b *Term) *Term { return ts.Not(ts.Eq(a, b)) }

func (ts *TermStore) cmp(op string, a, b *Term) *Term {
	if a.Int != nil && b.Int != nil {
		c := a.Int.Cmp(b.Int)
		switch op {
		case "<":
			return ts.Bool(c < 0)
		case "<=":
			return ts.Bool(c <= 0)
		case ">":
			return ts.Bool(c > 0)
		case ">=":
			return ts.Bool(c >= 0)
		}
	}
	return ts.mk(op, SBool, a, b)
}
func (ts *TermStore) Lt(a, b *Term) *Term { return ts.cmp("<", a, b) }
func (ts *TermStore) Le(a, b *Term) *Term { return ts.cmp("<=", a, b) }
func (ts *TermStore) Gt(a, b *Term) *Term { return ts.cmp(">", a, b) }
func (ts *TermStore) Ge(a, b *Term) *Term { return ts.cmp(">=", a, b) }

func (ts *TermStore) Add(a, b *Term) *Term {
	if a.Int != nil && b.Int != nil {
		return ts.IntBig(new(big.Int).Add(a.Int, b.Int))
	}
	if a.Int != nil && a.Int.Sign() == 0 {
		return b
	}
	if b.Int != nil && b.Int.Sign() == 0 {
		return a
	}
	// (x + c1) + c2
	if b.Int != nil && a.Op == "+" && len(a.Args) == 2 && a.Args[1].Int != nil {
		return ts.Add(a.Args[0], ts.IntBig(new(big.Int).Add(a.Args[1].Int, b.Int)))
	}
	return ts.mk("+", SInt, a, b)
}
func (ts *TermStore) Sub(a, b *Term) *Term {
	if a.Int != nil && b.Int != nil {
		return ts.IntBig(new(big.Int).Sub(a.Int, b.Int))
	}
	if b.Int != nil {
		return ts.Add(a, ts.IntBig(new(big.Int).Neg(b.Int)))
	}
	if a == b {
		return ts.Int(0)
	}
	return ts.mk("-", SInt, a, b)
}
func (ts *TermStore) Neg(a *Term) *Term {
	if a.Int != nil {
		return ts.IntBig(new(big.Int).Neg(a.Int))
	}
	return ts.mk("-", SInt, a)
}
func (ts *TermStore) Mul(a, b *Term) *Term {
	if a.Int != nil && b.Int != nil {
		return ts.IntBig(new(big.Int).Mul(a.Int, b.Int))
	}
	if a.Int != nil && a.Int.Cmp(big.NewInt(1)) == 0 {
		return b
	}
	if (a.Int != nil && a.Int.Sign() == 0) || (b.Int != nil && b.Int.Sign() == 0) {
		return ts.Int(0)
	}
	if b.Int != nil && b.Int.Cmp(big.NewInt(1)) == 0 {
		return a
	}
	return ts.mk("*", SInt, a, b)
}

// App builds an application of a named function (defined in the prelude or declared).
var anySelectors = map[string][2]interface{}{
	"any_itag": {"any_int", 0}, "any_ival": {"any_int", 1},
	"any_stag": {"any_str", 0}, "any_sval": {"any_str", 1},
	"any_ftag": {"any_flt", 0}, "any_fval": {"any_flt", 1},
	"any_btag": {"any_bool", 0}, "any_bval": {"any_bool", 1},
	"any_rtag": {"any_ref", 0}, "any_raddr": {"any_ref", 1},
}

func (ts *TermStore) App(fn string, sort Sort, args ...*Term) *Term {
	// selector applied to its own constructor
	if sel, ok := anySelectors[fn]; ok && len(args) == 1 && args[0].Op == sel[0].(string) {
		return args[0].Args[sel[1].(int)]
	}
	// tester applied to a constructor
	if strings.HasPrefix(fn, "(_ is ") && len(args) == 1 {
		ctor := strings.TrimSuffix(strings.TrimPrefix(fn, "(_ is "), ")")
		switch args[0].Op {
		case "any_nil", "any_int", "any_str", "any_flt", "any_bool", "any_ref":
			return ts.Bool(args[0].Op == ctor)
		}
	}
	return ts.mk(fn, sort, args...)
}

// DeclareFun registers an uninterpreted function, e.g. DeclareFun("f", "(Int Int) Int").
func (ts *TermStore) DeclareFun(name, sig string) {
	ts.Funs[name] = sig
}

func (ts *TermStore) Select(arr, idx *Term) *Term {
	// read-over-write simplification when syntactically decidable
	a := arr
	for a.Op == "store" {
		if a.Args[1] == idx {
			return a.Args[2]
		}
		if a.Args[1].Int != nil && idx.Int != nil {
			a = a.Args[0]
			continue
		}
		break
	}
	if a.Op == "ite" {
		// push the read under the conditional so that no array-sorted ite reaches the solver's matcher
		return ts.Ite(a.Args[0], ts.Select(a.Args[1], idx), ts.Select(a.Args[2], idx))
	}
	return ts.mk("select", a.Sort.Elem(), a, idx)
}

func (ts *TermStore) Store(arr, idx, val *Term) *Term {
	if val.Sort != arr.Sort.Elem() {
		panic(fmt.Sprintf("store sort mismatch: array %s value %s (%s)", arr.Sort, val.Sort, val))
	}
	return ts.mk("store", arr.Sort, arr, idx, val)
}

func (t *Term) String() string {
	if len(t.Args) == 0 {
		return t.Op
	}
	var sb strings.Builder
	sb.WriteByte('(')
	sb.WriteString(t.Op)
	for _, a := range t.Args {
		sb.WriteByte(' ')
		sb.WriteString(a.String())
	}
	sb.WriteByte(')')
	return sb.String()
}

// Printer prints a set of terms as SMT-LIB with sharing (define-fun for shared nodes).
type Printer struct {
	ts    *TermStore
	count map[int]int
	names map[int]string
	defs  []string
	used  map[string]bool // free constants used
	funs  map[string]bool // function symbols used
	bound map[int]bool
	// AbstractNL prints products of two non-literal terms as applications of an uninterpreted, commutative nlmul
	AbstractNL bool
}

func (p *Printer) opOf(t *Term) (string, []*Term) {
	if p.AbstractNL && t.Op == "*" && len(t.Args) == 2 && t.Args[0].Int == nil && t.Args[1].Int == nil {
		a, b := t.Args[0], t.Args[1]
		if a.id > b.id {
			a, b = b, a
		}
		return "nlmul", []*Term{a, b}
	}
	return t.Op, t.Args
}

func NewPrinter(ts *TermStore) *Printer {
	return &Printer{ts: ts, count: map[int]int{}, names: map[int]string{}, used: map[string]bool{}, funs: map[string]bool{}}
}

func (p *Printer) countRefs(t *Term) {
	p.count[t.id]++
	if p.count[t.id] > 1 {
		return
	}
	for _, a := range t.Args {
		p.countRefs(a)
	}
}

// Prepare must be called with all roots before Print.
func (p *Printer) Prepare(roots ...*Term) {
	for _, r := range roots {
		p.countRefs(r)
	}
}

func (p *Printer) Print(t *Term) string {
	if n, ok := p.names[t.id]; ok {
		return n
	}
	if len(t.Args) == 0 {
		if t.IsVar {
			p.used[strings.Trim(t.Op, "|")] = true
		} else {
			p.funs[t.Op] = true
		}
		return t.Op
	}
	var sb strings.Builder
	if t.Op == "!pat" {
		return p.printPat(t)
	}
	if t.Op == "forall" || t.Op == "exists" {
		// bound variables first, body last; never share sub-terms across the binder
		sb.WriteString("(" + t.Op + " (")
		for _, bv := range t.Args[:len(t.Args)-1] {
			sb.WriteString("(" + bv.Op + " " + string(bv.Sort) + ")")
		}
		sb.WriteString(") ")
		sb.WriteString(p.printNoShare(t.Args[len(t.Args)-1]))
		sb.WriteByte(')')
		return sb.String()
	}
	op, oargs := p.opOf(t)
	sb.WriteByte('(')
	sb.WriteString(op)
	p.funs[op] = true
	for _, a := range oargs {
		sb.WriteByte(' ')
		sb.WriteString(p.Print(a))
	}
	sb.WriteByte(')')
	s := sb.String()
	if p.count[t.id] > 1 && len(s) > 24 && !p.hasBound(t) {
		name := fmt.Sprintf("$t%d", t.id)
		p.defs = append(p.defs, fmt.Sprintf("(define-fun %s () %s %s)", name, t.Sort, s))
		p.names[t.id] = name
		return name
	}
	return s
}

// printNoShare prints a term inside a binder: sub-terms already named (closed) may be reused,
// but no new definitions are introduced for terms that mention bound variables.
func (p *Printer) printPat(t *Term) string {
	var sb strings.Builder
	sb.WriteString("(! " + p.printNoShare(t.Args[0]))
	for _, g := range t.Args[1:] {
		sb.WriteString(" :pattern (")
		for i, x := range g.Args {
			if i > 0 {
				sb.WriteByte(' ')
			}
			sb.WriteString(p.printNoShare(x))
		}
		sb.WriteString(")")
	}
	sb.WriteString(")")
	return sb.String()
}

func (p *Printer) printNoShare(t *Term) string {
	if t.Op == "!pat" {
		return p.printPat(t)
	}
	if !p.hasBound(t) {
		return p.Print(t)
	}
	if len(t.Args) == 0 {
		if !t.IsVar {
			p.funs[t.Op] = true
		}
		return t.Op
	}
	var sb strings.Builder
	if t.Op == "forall" || t.Op == "exists" {
		sb.WriteString("(" + t.Op + " (")
		for _, bv := range t.Args[:len(t.Args)-1] {
			sb.WriteString("(" + bv.Op + " " + string(bv.Sort) + ")")
		}
		sb.WriteString(") ")
		sb.WriteString(p.printNoShare(t.Args[len(t.Args)-1]))
		sb.WriteByte(')')
		return sb.String()
	}
	op, oargs := p.opOf(t)
	sb.WriteByte('(')
	sb.WriteString(op)
	p.funs[op] = true
	for _, a := range oargs {
		sb.WriteByte(' ')
		sb.WriteString(p.printNoShare(a))
	}
	sb.WriteByte(')')
	return sb.String()
}

func (p *Printer) hasBound(t *Term) bool {
	if p.bound == nil {
		p.bound = map[int]bool{}
	}
	if v, ok := p.bound[t.id]; ok {
		return v
	}
	r := false
	if len(t.Args) == 0 {
		r = !t.IsVar && strings.Contains(t.Op, "?") && strings.HasPrefix(t.Op, "|")
	} else {
		for _, a := range t.Args {
			if p.hasBound(a) {
				r = true
				break
			}
		}
	}
	p.bound[t.id] = r
	return r
}

func (p *Printer) Defs() []string { return p.defs }
func (p *Printer) UsedDecls() []string {
	var out []string
	for n := range p.used {
		out = append(out, n)
	}
	sort.Strings(out)
	return out
}
func (p *Printer) UsedFuns() map[string]bool { return p.funs }

// CollectApps returns all sub-terms with the given operator.
func CollectApps(roots []*Term, op string) []*Term {
	seen := map[int]bool{}
	var out []*Term
	var walk func(t *Term)
	walk = func(t *Term) {
		if seen[t.id] {
			return
		}
		seen[t.id] = true
		if t.Op == op {
			out = append(out, t)
		}
		for _, a := range t.Args {
			walk(a)
		}
	}
	for _, r := range roots {
		walk(r)
	}
	return out
}

// TermSize counts DAG nodes.
func TermSize(roots []*Term) int {
	seen := map[int]bool{}
	var walk func(t *Term)
	walk = func(t *Term) {
		if seen[t.id] {
			return
		}
		seen[t.id] = true
		for _, a := range t.Args {
			walk(a)
		}
	}
	for _, r := range roots {
		walk(r)
	}
	return len(seen)
}

// Forall builds a quantified formula over bound variables (which must be Var terms created with BoundVar).
func (ts *TermStore) Forall(bvs []*Term, body *Term) *Term {
	if body.IsTrue() {
		return body
	}
	args := append(append([]*Term{}, bvs...), body)
	return ts.mk("forall", SBool, args...)
}
func (ts *TermStore) Exists(bvs []*Term, body *Term) *Term {
	if body.IsFalse() {
		return body
	}
	args := append(append([]*Term{}, bvs...), body)
	return ts.mk("exists", SBool, args...)
}

// WithPatterns annotates a quantifier body with instantiation patterns (each pattern is a list of terms).
func (ts *TermStore) WithPatterns(body *Term, pats ...[]*Term) *Term {
	args := []*Term{body}
	for _, p := range pats {
		args = append(args, ts.mk("patgroup", SBool, p...))
	}
	return ts.mk("!pat", SBool, args...)
}

// BoundVar creates a bound variable symbol (not declared as a free constant).
func (ts *TermStore) BoundVar(hint string, sort Sort) *Term {
	hint = sanitize(hint)
	ts.fresh["bv."+hint]++
	name := fmt.Sprintf("|%s?%d|", hint, ts.fresh["bv."+hint])
	return ts.mk(name, sort)
}
