package vc

import (
	"fmt"
	"go/ast"
	"go/token"
	"go/types"
	"strings"
)

// frameObl records an obligation decided by the syntactic frame pass (no solver involved).
func (e *Engine) frameObl(name string, props []string, ok bool, pos, desc, detail string) {
	o := &Obligation{Name: name, Func: "frame", Kind: "frame", Props: props, Pos: pos, Desc: desc, Solver: "frame-pass"}
	if ok {
		o.Goal = e.ts.True()
	} else {
		o.Goal = e.ts.False()
		o.Output = detail
	}
	o.Assumes = nil
	e.Obls = append(e.Obls, o)
}

func (e *Engine) addFrameObligations() {
	e.addGlobalInvObligations()
	e.addAssignsObligations()
	e.addFramePropObligations()
}

// addAssignsObligations: a contract's `assigns` clause must cover the transitive write set computed by the frame pass
// (callers havoc exactly the listed heaps).
func (e *Engine) addAssignsObligations() {
	for _, key := range e.P.CF.Order {
		c := e.P.CF.Contracts[key]
		if !c.HasAssigns {
			continue
		}
		fi := e.P.Funcs[key]
		if fi == nil || fi.Obj == nil {
			continue
		}
		t := e.effects.Trans[fi.Obj]
		if t == nil {
			continue
		}
		star := false
		for _, w := range c.Assigns {
			if w == "*" {
				star = true
			}
		}
		var bad []string
		if !star {
			if t.Top {
				bad = append(bad, "calls unknown code: "+strings.Join(t.TopWhy, "; "))
			}
			for _, k := range keysList(t.Writes) {
				ok := false
				for _, w := range c.Assigns {
					if matchKey(k, w) || k == w {
						ok = true
					}
				}
				if !ok {
					bad = append(bad, k)
				}
			}
		}
		e.frameObl("frame:"+key+"/assigns", c.Props, len(bad) == 0, e.posStr(fi.Decl.Pos()), "assigns clause of "+key+" covers every heap the function (transitively) writes", "not covered: "+strings.Join(bad, ", "))
	}
}

// addGlobalInvObligations: a declared global invariant is (1) established by the variable's initialiser and
// (2) preserved because the variable is never assigned outside package initialisation.
func (e *Engine) addGlobalInvObligations() {
	for _, gi := range e.P.CF.GlobalInvs {
		obj, _ := e.P.Pkg.Types.Scope().Lookup(gi.Var).(*types.Var)
		if obj == nil {
			e.frameObl("global:"+gi.Var+"/exists", gi.Props, false, "", "global variable exists", "no package-level variable "+gi.Var)
			continue
		}
		written := e.effects.GlobalWritten[obj]
		where := ""
		if written {
			for fn, fe := range e.effects.Local {
				if p, ok := fe.GlobalsWrite[obj]; ok && !e.effects.InitFuncs[fn] {
					where = fn.Name() + " at " + p
				}
			}
		}
		e.frameObl("global:"+gi.Var+"/immutable-after-init", gi.Props, !written, e.posStr(obj.Pos()), "package-level variable "+gi.Var+" is never assigned after initialisation", "assigned in "+where)
		// establishment by the initialiser
		var initExpr ast.Expr
		for _, f := range e.P.Pkg.Syntax {
			for _, d := range f.Decls {
				gd, ok := d.(*ast.GenDecl)
				if !ok || gd.Tok != token.VAR {
					continue
				}
				for _, sp := range gd.Specs {
					vs := sp.(*ast.ValueSpec)
					for i, n := range vs.Names {
						if e.P.Info.Defs[n] == obj && i < len(vs.Values) {
							initExpr = vs.Values[i]
						}
					}
				}
			}
		}
		if initExpr == nil {
			e.frameObl("global:"+gi.Var+"/init", gi.Props, false, e.posStr(obj.Pos()), "global has an initialiser", "no initialiser expression")
			continue
		}
		e.verifyGlobalInit(gi, obj, initExpr)
	}
}

func (e *Engine) verifyGlobalInit(gi *GlobalInv, obj *types.Var, initExpr ast.Expr) {
	key := "global:" + gi.Var
	fi := &FuncInfo{Key: key, File: "init", Decl: &ast.FuncDecl{Name: ast.NewIdent("init_" + gi.Var), Type: &ast.FuncType{Params: &ast.FieldList{}}, Body: &ast.BlockStmt{}}}
	start := len(e.Obls)
	defer func() {
		if r := recover(); r != nil {
			if u, ok := r.(unsupported); ok {
				e.Unsupported[key] = append(e.Unsupported[key], u.msg)
				e.Obls = e.Obls[:start]
				return
			}
			panic(r)
		}
	}()
	fx := e.newFctx(fi)
	fx.props = gi.Props
	e.curFx = fx
	defer func() { e.curFx = nil }()
	st := &State{vars: map[*types.Var]*Value{}, heap: map[string]*Term{}, base: e.newBase("")}
	st.alloc = e.ts.Var("alloc0", SInt)
	st.assume(e.ts.Ge(st.alloc, e.ts.Int(1)))
	fx.entry = st.clone()
	fx.retFrames = []*retFrame{{}}
	fx.inGlobalInv = true // the invariant is not yet available while the initialiser runs
	v := fx.eval(st, initExpr)
	e.storeCell(st, e.globalKey(obj), e.ts.Int(0), obj.Type(), fx.convertForAssign(st, v, obj.Type()))
	g := fx.evalClause(st, nil, gi.Clause, map[string]*Value{})
	fx.inGlobalInv = false
	fx.assert(st, "init", "", g, initExpr, gi.Props, fmt.Sprintf("initialiser of %s establishes: %s", gi.Var, gi.Clause.Text))
}
