package vc

import (
	"encoding/json"
	"flag"
	"fmt"
	"os"
	"path/filepath"
	"regexp"
	"sort"
	"strconv"
	"strings"
	"time"
)

const VerifDir = "/verif"

// outDir: where evidence and replay files go — /verif, except when the seed tooling runs dsvc on a scratch tree
// (DSVC_REPO), whose results must not overwrite the evidence of the real tree.
func outDir() string {
	if os.Getenv("DSVC_REPO") != "" {
		d := filepath.Join(os.TempDir(), "dsvc-scratch-out")
		os.MkdirAll(d, 0o755)
		return d
	}
	return VerifDir
}

// Prepare runs the frame/effect pass.
func (e *Engine) Prepare() {
	e.computeAmbiguous()
	e.effects = e.ComputeEffects()
	e.setupTypeInvs()
}

type KnownFinding struct {
	Property   string `json:"property"`
	Obligation string `json:"obligation"`
	Witness    string `json:"witness"`
	What       string `json:"what"`
	Input      string `json:"input,omitempty"` // grammar findings: the exact shortest failing input found by the witness search
}

type KnownFile struct {
	Findings []KnownFinding `json:"findings"`
	Fixed    []string       `json:"fixed"`
}

func loadKnown() *KnownFile {
	kf := &KnownFile{}
	b, err := os.ReadFile(filepath.Join(VerifDir, "known_findings.json"))
	if err == nil {
		json.Unmarshal(b, kf)
	}
	return kf
}

// Lock file: property -> sorted obligation names that discharge on the unchanged tree.
type LockFile map[string][]string

func loadLock() LockFile {
	lf := LockFile{}
	b, err := os.ReadFile(filepath.Join(VerifDir, "obligations.lock"))
	if err == nil {
		json.Unmarshal(b, &lf)
	}
	return lf
}

func hasProp(props []string, p string) bool {
	for _, x := range props {
		if x == p {
			return true
		}
	}
	return false
}

// contractServes reports whether any obligation of the function may belong to property p.
func contractServes(c *Contract, p string) bool {
	if hasProp(c.Props, p) {
		return true
	}
	for _, cl := range c.Requires {
		if hasProp(cl.Props, p) {
			return true
		}
	}
	for _, cl := range c.Ensures {
		if hasProp(cl.Props, p) {
			return true
		}
	}
	for _, cl := range c.Goals {
		if hasProp(cl.Props, p) {
			return true
		}
	}
	for _, cc := range c.Closures {
		for _, cl := range append(append([]*Clause{}, cc.Requires...), cc.Ensures...) {
			if hasProp(cl.Props, p) {
				return true
			}
		}
	}
	for _, l := range c.Loops {
		for _, cl := range l.Invariants {
			if hasProp(cl.Props, p) {
				return true
			}
		}
		if l.Decreases != nil && hasProp(l.Decreases.Props, p) {
			return true
		}
	}
	return false
}

type RunResult struct {
	Engine *Engine
	Obls   []*Obligation
	Secs   float64
}

// RunProperty generates and solves every obligation that serves property p ("" = all).
func RunProperty(p string, secs int, thorough bool, keep string) (*RunResult, error) {
	t0 := time.Now()
	prog, err := LoadProgram()
	if err != nil {
		return nil, err
	}
	e := NewEngine(prog)
	e.Prepare()
	for _, key := range prog.CF.Order {
		c := prog.CF.Contracts[key]
		if p == "" || contractServes(c, p) {
			e.VerifyFunc(key)
		}
	}
	// contracts that no longer resolve against the tree (dropped at load): a named failing obligation for their properties
	for _, k := range sortedStrKeysS(prog.Dropped) {
		props := prog.DroppedProps[k]
		if p == "" || hasProp(props, p) {
			e.frameObl("contracts-resolve:"+k, props, false, "", "the contract of "+k+" resolves against the current source (every local, loop, call and closure it names exists)", prog.Dropped[k])
		}
	}
	// obligation names quote source expressions: under a followed renaming they are spelt with the ledger's names
	for _, o := range e.Obls {
		if m := prog.Renamed[o.Func]; len(m) > 0 {
			for oldN, newN := range m {
				o.Name = regexp.MustCompile(`\b`+regexp.QuoteMeta(newN)+`\b`).ReplaceAllString(o.Name, oldN)
			}
		}
	}
	for _, k := range sortedStrKeysM(prog.Renamed) {
		var rs []string
		for o, n := range prog.Renamed[k] {
			rs = append(rs, o+"->"+n)
		}
		sort.Strings(rs)
		fmt.Printf("NOTE contract of %s: renamed locals followed (%s)\n", k, strings.Join(rs, ", "))
	}
	// C01, zero-annotation sweep: every function without a contract is verified for panic-freedom with no
	// precondition.  These obligations are advisory: only those that discharged on the unchanged tree (ledger) are
	// part of the claim; the others are listed as open in the evidence and never raise an alarm.
	if p == "" || p == "C01" {
		var keys []string
		for k, fi := range prog.Funcs {
			if fi.File == "roll.peg.go" || fi.File == ContractsFileName || fi.File == GenFileName || strings.HasSuffix(fi.File, "_test.go") || fi.Decl == nil || fi.Decl.Body == nil {
				continue
			}
			if _, has := prog.CF.Contracts[k]; !has {
				keys = append(keys, k)
			}
		}
		sort.Strings(keys)
		for _, k := range keys {
			n0 := len(e.Obls)
			nv := len(e.Verified)
			e.VerifyFunc(k)
			e.Verified = e.Verified[:minInt(nv, len(e.Verified))]
			for _, o := range e.Obls[n0:] {
				o.Advisory = true
				o.Props = []string{"C01"}
			}
		}
	}
	e.AddLemmas()
	e.AddStructural()
	var obls []*Obligation
	for _, o := range e.Obls {
		if o.Advisory && o.Canary {
			continue
		}
		if p == "" || hasProp(o.Props, p) || (o.Canary && p != "") {
			obls = append(obls, o)
		}
	}
	e.SolveAll(obls, secs, 16, thorough, keep)
	return &RunResult{Engine: e, Obls: obls, Secs: time.Since(t0).Seconds()}, nil
}

// AddLemmas turns the lemma blocks of the contracts file into obligations (raw SMT-LIB, expected unsat).
func (e *Engine) AddLemmas() {
	for _, l := range e.P.CF.Lemmas {
		o := &Obligation{Name: "lemma:" + l.Name, Func: "lemma", Kind: "lemma", Props: l.Props, Lemma: l, Pos: fmt.Sprintf("%s:%d", ContractsFileName, l.Line), Desc: "lemma " + l.Name + " (" + l.Logic + ")"}
		e.Obls = append(e.Obls, o)
	}
}

type Evidence struct {
	PropertyID  string         `json:"property_id"`
	Tier        string         `json:"tier"`
	Seed        int            `json:"seed"`
	Level       string         `json:"level"`
	Coverage    map[string]any `json:"coverage"`
	Assumptions []string       `json:"assumptions"`
	WallS       float64        `json:"wall_s"`
	Violations  int            `json:"violations"`
}

func CheckCmd(args []string) int {
	fs := flag.NewFlagSet("check", flag.ExitOnError)
	tier := fs.String("tier", "", "quick or thorough")
	keep := fs.String("keep", "", "keep SMT files in this directory")
	fs.Parse(args)
	if fs.NArg() != 1 {
		fmt.Fprintln(os.Stderr, "usage: dsvc check [--tier quick|thorough] <property>")
		return 2
	}
	prop := fs.Arg(0)
	if *tier == "" {
		*tier = os.Getenv("VERIF_TIER")
	}
	if *tier != "thorough" {
		*tier = "quick"
	}
	seed, _ := strconv.Atoi(os.Getenv("VERIF_SEED"))
	secs := 10
	if *tier == "thorough" {
		secs = 60
	}
	os.RemoveAll(filepath.Join(outDir(), "replay", prop))
	rr, err := RunProperty(prop, secs, *tier == "thorough", *keep)
	if err != nil {
		// a tree that no longer loads or whose contracts no longer resolve cannot be certified
		fmt.Println("dsvc: cannot build obligations:", err)
		replay := writeReplay(prop, "load-error", "the contracts could not be resolved against the current tree:\n"+err.Error(), "")
		fmt.Printf("VIOLATION property=%s replay=%s obligation=contracts-resolve no-failing-input-found\n", prop, replay)
		writeEvidence(prop, *tier, seed, nil, nil, 1, 0, []string{"contracts did not resolve: " + err.Error()})
		return 1
	}
	// second chance for ledger obligations that came back undecided: solver timing under load must not raise an alarm.
	// They are re-run with a longer budget and little parallelism; only what is still undecided then is reported.
	lock := loadLock()
	locked := map[string]bool{}
	for _, n := range lock[prop] {
		locked[n] = true
	}
	var again []*Obligation
	for _, o := range rr.Obls {
		if !o.Canary && o.Status == "undecided" && locked[o.Name] && o.Kind != "frame" {
			again = append(again, o)
		}
	}
	if len(again) > 0 && len(again) <= 40 {
		fmt.Printf("dsvc: %d ledger obligation(s) undecided within %ds; retrying with %ds\n", len(again), secs, secs*4)
		rr.Engine.SolveAll(again, secs*4, 4, true, "")
	}
	return report(prop, *tier, seed, rr)
}

func writeReplay(prop, name, text, goTest string) string {
	dir := filepath.Join(outDir(), "replay", prop)
	os.MkdirAll(dir, 0o755)
	f := filepath.Join(dir, safeFile(name)+".txt")
	os.WriteFile(f, []byte(text), 0o644)
	if goTest != "" {
		os.WriteFile(filepath.Join(dir, safeFile(name)+"_test.go.txt"), []byte(goTest), 0o644)
	}
	return f
}

func report(prop, tier string, seed int, rr *RunResult) int {
	e := rr.Engine
	known := loadKnown()
	lock := loadLock()
	locked := map[string]bool{}
	for _, n := range lock[prop] {
		locked[n] = true
	}
	knownBy := map[string]*KnownFinding{}
	for i := range known.Findings {
		k := &known.Findings[i]
		if k.Property == prop {
			knownBy[k.Obligation] = k
		}
	}
	present := map[string]*Obligation{}
	violations := 0
	var knownHit []string
	var undecided []string
	nObl, nDis := 0, 0
	bySolver := map[string]int{}
	solverSecs := 0.0
	var samples []any
	sort.SliceStable(rr.Obls, func(i, j int) bool { return rr.Obls[i].Name < rr.Obls[j].Name })
	canaries, canaryBad := 0, 0
	sweepOpen, sweepNew := 0, 0
	advProved := map[string]int{}
	var advPending []*Obligation
	retLive, retTotal := map[string]int{}, map[string]int{}
	retDead := map[string][]*Obligation{}
	lockedFam := map[string]int{}
	lockedFamSeen := map[string]bool{}
	for n := range locked {
		if strings.HasSuffix(n, openMark) {
			continue
		}
		if strings.HasSuffix(n, reachableMark) {
			f := oblFamily(strings.TrimSuffix(n, reachableMark)) + reachableMark
			lockedFam[f]++
			lockedFamSeen[f] = true
			continue
		}
		lockedFam[oblFamily(n)]++
	}
	for _, o := range rr.Obls {
		present[o.Name] = o
		solverSecs += o.Secs
		if o.Canary && isRetCanary(o.Name) {
			// reachability of returns is compared by COUNT per function with the ledger: an edit that leaves one return
			// dead and adds a live one (an early `return` before an `if err != nil { return }`) is not a vacuity signal;
			// a contradictory contract kills many returns at once
			canaries++
			fam := oblFamily(o.Name)
			retTotal[fam]++
			if o.Status != "proved" {
				retLive[fam]++
			} else {
				retDead[fam] = append(retDead[fam], o)
			}
			continue
		}
		if o.Canary {
			canaries++
			if o.Status == "proved" {
				canaryBad++
				replay := writeReplay(prop, o.Name, "vacuity guard failed: the precondition / path of "+o.Func+" is contradictory, so every obligation of that function holds vacuously.\n"+o.Output, "")
				fmt.Printf("VIOLATION property=%s replay=%s obligation=%s vacuous-contract no-failing-input-found\n", prop, replay, o.Name)
				violations++
			}
			continue
		}
		if kf, ok := knownBy[o.Name]; ok {
			if o.Status != "proved" && kf.Input != "" && o.Witness != "" && o.Witness != kf.Input {
				// the obligation is a listed finding, but the shortest failing input is no longer the recorded one:
				// a different violation of the same obligation
				violations++
				o.Output += fmt.Sprintf("\nthis obligation is a recorded finding with witness %q; the shortest failing input now is %q", kf.Input, o.Witness)
				emitViolation(e, prop, o, "new-witness-for-known-finding")
			} else if o.Status != "proved" {
				fmt.Printf("KNOWN-FINDING: property=%s %s [obligation %s, witness %s]\n", prop, kf.What, o.Name, kf.Witness)
				knownHit = append(knownHit, o.Name)
			} else {
				// a listed finding that no longer fails: nothing to report (it is simply proved now)
				nObl++
				nDis++
				bySolver[o.Solver]++
			}
			continue
		}
		if o.Advisory && !locked[o.Name] {
			// zero-annotation sweep: never discharged on the unchanged tree, not part of the claim
			if o.Status == "proved" {
				sweepNew++
				advProved[oblFamily(o.Name)]++
			} else {
				sweepOpen++
				if o.Inlined && o.Status == "failed" && lockedFam[oblFamily(o.Name)] == 0 && !locked[oblFamily(o.Name)+openMark] {
					// refuted, inside a helper that a contracted function executes in place, and of a family the ledger has never
					// seen (neither discharged nor open): new code with a failing safety obligation
					nObl++
					violations++
					emitViolation(e, prop, o, "counterexample")
				}
			}
			continue
		}
		if o.Advisory {
			// an advisory obligation is claimed through the ledger, and ledger names carry occurrence ordinals: compare
			// per family by COUNT (as many members proved now as were in the ledger), so that reordering two sites of
			// which one never discharged is not an alarm
			if o.Status == "proved" {
				advProved[oblFamily(o.Name)]++
			} else {
				advPending = append(advPending, o)
				continue
			}
		}
		nObl++
		switch o.Status {
		case "proved":
			nDis++
			bySolver[o.Solver]++
			if len(samples) < 6 {
				samples = append(samples, map[string]any{"obligation": o.Name, "at": o.Pos, "what": o.Desc, "solver": o.Solver, "secs": round3(o.Secs), "smt_bytes": o.SMTSize})
			}
		case "failed":
			violations++
			emitViolation(e, prop, o, "counterexample")
		default:
			if locked[o.Name] {
				violations++
				emitViolation(e, prop, o, "undecided-but-discharged-before")
			} else {
				// never discharged before (not in the ledger): not part of the claim; listed under "undecided"
				nObl--
				undecided = append(undecided, o.Name)
			}
		}
	}
	// locked obligations that disappeared
	for _, fam := range sortedKeysObl(retDead) {
		was := lockedFam[fam+reachableMark]
		if _, known := lockedFamSeen[fam+reachableMark]; !known {
			was = retTotal[fam] // function not in the ledger yet: every return is expected to be reachable
		}
		if retLive[fam] >= was {
			continue
		}
		for _, o := range retDead[fam] {
			canaryBad++
			replay := writeReplay(prop, o.Name, fmt.Sprintf("vacuity guard failed: %d return(s) of %s were reachable under its contract on the unchanged tree, %d are now: the precondition / a path condition has become contradictory, so obligations behind it hold vacuously.\n", was, o.Func, retLive[fam])+o.Output, "")
			fmt.Printf("VIOLATION property=%s replay=%s obligation=%s vacuous-contract no-failing-input-found\n", prop, replay, o.Name)
			violations++
		}
	}
	for _, o := range advPending {
		fam := oblFamily(o.Name)
		if advProved[fam] >= lockedFam[fam] {
			sweepOpen++ // as many members of the family discharge as before: the failing one is a site that never did
			continue
		}
		nObl++
		violations++
		if o.Status == "failed" {
			emitViolation(e, prop, o, "counterexample")
		} else {
			emitViolation(e, prop, o, "undecided-but-discharged-before")
		}
	}
	// A ledger obligation counts as gone only when its whole FAMILY is gone: names carry ordinals that shift under
	// harmless edits (the n-th occurrence of an expression `#n`, the n-th return `@retN`, the n-th call of a callee
	// `.N/`), so the comparison is made on the name with those ordinals removed.  An edit that moves, duplicates or
	// merges sites keeps the family; deleting the last site of a kind, a contract clause, a loop or a function does not.
	presentFam := map[string]bool{}
	presentFunc := map[string]bool{}
	for n := range present {
		presentFam[oblFamily(n)] = true
		if fn, _ := oblFuncAndKind(n); fn != "" {
			presentFunc[fn] = true
		}
	}
	var missing []string
	renamed := 0
	for n := range locked {
		if strings.HasSuffix(n, reachableMark) || strings.HasSuffix(n, openMark) {
			continue
		}
		if present[n] == nil {
			if presentFam[oblFamily(n)] {
				renamed++
				continue
			}
			// panic-freedom obligations are named after the source expression they guard (`index:compiled.groups[0]`):
			// rewriting the expression renames them.  As long as the function still produces obligations in this run
			// (it has not left the verifier's subset), a vanished site of these kinds is a site that no longer exists,
			// not a lost guarantee.  Contract-derived obligations (post, invariants, ghost assertions, frame, grammar)
			// are never excused this way.
			if fn, kind := oblFuncAndKind(n); safetyKinds[kind] && presentFunc[fn] {
				renamed++
				continue
			}
			missing = append(missing, n)
		}
	}
	sort.Strings(missing)
	for _, n := range missing {
		violations++
		replay := writeReplay(prop, n, "obligation "+n+" discharged on the unchanged tree but is no longer generated: the function, loop, call or contract it is anchored on has disappeared or left the verifier's subset.\n"+unsupText(e), "")
		fmt.Printf("VIOLATION property=%s replay=%s obligation=%s obligation-missing no-failing-input-found\n", prop, replay, n)
	}
	for _, k := range sortedKeys(e.Unsupported) {
		fmt.Printf("OUTSIDE-REACH %s: %s\n", k, strings.Join(e.Unsupported[k], "; "))
	}
	for _, u := range undecided {
		fmt.Printf("UNDECIDED %s (not in ledger; reported in evidence, no alarm)\n", u)
	}
	var assumptions []string
	for a := range e.Assumptions {
		assumptions = append(assumptions, a)
	}
	sort.Strings(assumptions)
	assumptions = append(assumptions, baseAssumptions...)
	cov := map[string]any{
		"obligations":              nObl,
		"discharged":               nDis,
		"checker_cmd":              "bin/dsvc check --tier " + tier + " " + prop,
		"trusted_base":             trustedBase,
		"samples":                  samples,
		"functions_under_contract": e.Verified,
		"by_solver":                bySolver,
		"solver_seconds":           round3(solverSecs),
		"undecided":                undecided,
		"known_findings_hit":       knownHit,
		"outside_reach":            e.Unsupported,
		"vacuity_canaries":         canaries,
		"vacuity_failures":         canaryBad,
		"ledger_size":              len(locked),
		"ledger_missing":           missing,
		"ledger_renamed":           renamed,
		"sweep_open_obligations":   sweepOpen,
		"sweep_new_proved":         sweepNew,
		"explanation":              "every obligation is generated from /repo's current source on this run (contracts in /repo/verif_contracts.go, tag verif) and discharged by an SMT solver, or — for frame:* obligations — by the syntactic effect pass over the typed call graph; see DESIGN.md",
		"integers":                 "mathematical Int with exact two's-complement wrap at every Go arithmetic operation; bit operators via lemmas proved in QF_BV on every run",
	}
	writeEvidence(prop, tier, seed, rr, cov, violations, rr.Secs, assumptions)
	fmt.Printf("dsvc %s: %d obligations, %d discharged, %d known findings, %d undecided, %d violations, %.1fs\n", prop, nObl, nDis, len(knownHit), len(undecided), violations, rr.Secs)
	if violations > 0 {
		return 1
	}
	return 0
}

func unsupText(e *Engine) string {
	var sb strings.Builder
	for _, k := range sortedKeys(e.Unsupported) {
		fmt.Fprintf(&sb, "outside reach: %s: %s\n", k, strings.Join(e.Unsupported[k], "; "))
	}
	return sb.String()
}

func round3(f float64) float64 { return float64(int(f*1000+0.5)) / 1000 }

var trustedBase = []string{
	"dsvc's Go-to-SMT translation (typed AST, forward symbolic execution with state merging, cut points at loops)",
	"z3 5.1.0 (z3-new), z3 4.8.12, cvc5 1.0.x",
	"Go language semantics as encoded (two's-complement wrap, slice/cap rules, nil/bounds/type-assertion panics)",
	"assumed contracts of external packages listed under assumptions",
}

var baseAssumptions = []string{
	"termination is proved only where a `decreases` clause exists; elsewhere partial correctness",
	"floats are an uninterpreted sort (float numerics are not verified)",
	"strings are an uninterpreted sort with length/concat/slice facts (contents are not interpreted)",
	"Go maps are opaque (reads return arbitrary values subject to declared type invariants)",
	"no concurrency: sync/atomic primitives have their sequential meaning",
}

func writeEvidence(prop, tier string, seed int, rr *RunResult, cov map[string]any, violations int, wall float64, assumptions []string) {
	if cov == nil {
		cov = map[string]any{"obligations": 0, "discharged": 0, "checker_cmd": "bin/dsvc check " + prop, "trusted_base": trustedBase, "evaluations": 0, "distinct_nontrivial": 0}
	}
	ev := Evidence{PropertyID: prop, Tier: tier, Seed: seed, Level: "proof", Coverage: cov, Assumptions: assumptions, WallS: round3(wall), Violations: violations}
	if lv, ok := levelOverride[prop]; ok {
		ev.Level = lv
	}
	b, _ := json.MarshalIndent(ev, "", " ")
	os.MkdirAll(filepath.Join(outDir(), "evidence"), 0o755)
	os.WriteFile(filepath.Join(outDir(), "evidence", prop+".json"), b, 0o644)
}

var levelOverride = map[string]string{"C11": "other"}

func emitViolation(e *Engine, prop string, o *Obligation, why string) {
	var sb strings.Builder
	fmt.Fprintf(&sb, "property: %s\nobligation: %s\nkind: %s\nat: %s\nwhat: %s\nstatus: %s (%s)\nsolver: %s\n\nsolver output:\n%s\n", prop, o.Name, o.Kind, o.Pos, o.Desc, o.Status, why, o.Solver, o.Output)
	suffix := " no-failing-input-found"
	goTest := ""
	if o.Status == "failed" && o.Replay != nil {
		fmt.Fprintf(&sb, "\nreplay against the real code:\n%s\n", o.Replay.Log)
		goTest = o.Replay.Source
		if o.Replay.Confirmed {
			suffix = ""
		}
	} else if o.Status == "failed" {
		model := e.ModelFor(o, 10)
		fmt.Fprintf(&sb, "\nmodel:\n%s\n", model)
		if rp := e.tryReplay(o, model); rp != nil {
			fmt.Fprintf(&sb, "\nreplay against the real code:\n%s\n", rp.Log)
			goTest = rp.Source
			if rp.Confirmed {
				suffix = ""
			}
		}
	}
	replay := writeReplay(prop, o.Name, sb.String(), goTest)
	fmt.Printf("VIOLATION property=%s replay=%s obligation=%s%s\n", prop, replay, o.Name, suffix)
}

// LockCmd regenerates obligations.lock from a full run (development tool, never run by a check).
func LockCmd(args []string) int {
	fs := flag.NewFlagSet("lock", flag.ExitOnError)
	secs := fs.Int("t", 10, "timeout")
	fs.Parse(args)
	rr, err := RunProperty("", *secs, false, "")
	if err != nil {
		fmt.Fprintln(os.Stderr, err)
		return 2
	}
	lf := LockFile{}
	cnt := map[string]int{}
	for _, o := range rr.Obls {
		cnt[o.Status]++
		if o.Canary || o.Status != "proved" {
			if !o.Canary {
				fmt.Printf("%-10s %s  [%s] %s\n", o.Status, o.Name, strings.Join(o.Props, ","), o.Desc)
				if o.Inlined {
					// an obligation inside a helper executed in place that does not discharge on the unchanged tree: remembered as
					// open, so that only NEW failing families of this kind are reported later
					for _, p := range o.Props {
						lf[p] = append(lf[p], oblFamily(o.Name)+openMark)
					}
				}
			} else if o.Status != "proved" && isRetCanary(o.Name) {
				// a return that is reachable under the contract: the ledger keeps how many there are per function
				for _, p := range o.Props {
					lf[p] = append(lf[p], o.Name+reachableMark)
				}
			}
			continue
		}
		for _, p := range o.Props {
			lf[p] = append(lf[p], o.Name)
		}
	}
	// the variables of every contracted function in declaration order (used to follow pure renamings, see LoadProgram)
	for _, k := range rr.Engine.P.CF.Order {
		if fi := rr.Engine.P.Funcs[k]; fi != nil && fi.Decl != nil {
			lf[localsKey] = append(lf[localsKey], k+"\t"+strings.Join(localList(rr.Engine.P.Info, fi), ","))
		}
	}
	for p := range lf {
		sort.Strings(lf[p])
	}
	b, _ := json.MarshalIndent(lf, "", " ")
	os.WriteFile(filepath.Join(VerifDir, "obligations.lock"), b, 0o644)
	for k, r := range rr.Engine.Unsupported {
		fmt.Printf("OUTSIDE REACH %s: %s\n", k, strings.Join(r, "; "))
	}
	fmt.Println("lock written:", cnt, fmt.Sprintf("%.1fs", rr.Secs))
	return 0
}

func EffectsCmd(args []string) int { return 2 }

var (
	famOrd  = regexp.MustCompile(`#\d+$`)
	famRet  = regexp.MustCompile(`[@/:]ret\d+`)
	famCall = regexp.MustCompile(`\.\d+/`)
)

// oblFamily strips the occurrence, return and call ordinals from an obligation name.
func oblFamily(n string) string {
	n = famOrd.ReplaceAllString(n, "")
	n = famRet.ReplaceAllString(n, "")
	n = famCall.ReplaceAllString(n, "/")
	return n
}

const reachableMark = "~reachable"
const openMark = "~open"

func isRetCanary(name string) bool { return strings.Contains(name, "/vacuity:ret") }

func sortedKeysObl(m map[string][]*Obligation) []string {
	var out []string
	for k := range m {
		out = append(out, k)
	}
	sort.Strings(out)
	return out
}

func sortedStrKeysS(m map[string]string) []string {
	var out []string
	for k := range m {
		out = append(out, k)
	}
	sort.Strings(out)
	return out
}

func sortedStrKeysM(m map[string]map[string]string) []string {
	var out []string
	for k := range m {
		out = append(out, k)
	}
	sort.Strings(out)
	return out
}

var safetyKinds = map[string]bool{"nil": true, "index": true, "slice": true, "typeassert": true, "div0": true, "makeslice": true,
	"nilmap": true, "nilfunc": true, "elem-nonnil": true, "elems-nonnil": true}

// oblFuncAndKind splits "file.go:Func/[case:x/][loopN/]kind:detail#n" into the function part and the kind.
func oblFuncAndKind(n string) (string, string) {
	i := strings.Index(n, ".go:")
	if i < 0 {
		return "", ""
	}
	rest := n[i+4:]
	// the function key ends at the first "/" that is not inside parentheses
	depth := 0
	cut := -1
	for j, c := range rest {
		switch c {
		case '(':
			depth++
		case ')':
			depth--
		case '/':
			if depth == 0 && cut < 0 {
				cut = j
			}
		}
		if cut >= 0 {
			break
		}
	}
	if cut < 0 {
		return "", ""
	}
	fn := n[:i+4] + rest[:cut]
	tail := rest[cut+1:]
	// skip case:/loop segments
	for {
		k := strings.Index(tail, "/")
		seg := tail
		if k >= 0 {
			seg = tail[:k]
		}
		if strings.HasPrefix(seg, "case:") || strings.HasPrefix(seg, "loop") || strings.HasPrefix(seg, "inl.loop") {
			if k < 0 {
				return fn, ""
			}
			tail = tail[k+1:]
			continue
		}
		break
	}
	kind := tail
	if k := strings.IndexAny(kind, ":#"); k >= 0 {
		kind = kind[:k]
	}
	return fn, kind
}
