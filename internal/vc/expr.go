package vc

import (
	"fmt"
	"go/ast"
	"go/constant"
	"go/token"
	"go/types"
	"math/big"
)

func (e *Engine) exprStr(x ast.Expr) string { return types.ExprString(x) }

// ---- constants ------------------------------------------------------------------------------

func (e *Engine) strLit(s string) *Term {
	if t, ok := e.strLits[s]; ok {
		return t
	}
	var t *Term
	if s == "" {
		t = e.ts.App("str_empty", SStr)
	} else {
		t = e.ts.Var(fmt.Sprintf("strlit%d", len(e.strLits)+1), SStr)
	}
	e.strLits[s] = t
	return t
}

func (e *Engine) fltLit(s string) *Term {
	if t, ok := e.fltLits[s]; ok {
		return t
	}
	t := e.ts.Var(fmt.Sprintf("fltlit%d", len(e.fltLits)+1), SFlt)
	e.fltLits[s] = t
	return t
}

func (e *Engine) constValue(cv constant.Value, t types.Type) *Value {
	if t == nil {
		t = types.Typ[types.Int]
	}
	k, s := e.classify(t)
	if k != kScalar {
		panic(unsupported{"constant of non-scalar type " + e.typeStr(t)})
	}
	switch s {
	case SBool:
		return &Value{T: t, Tm: e.ts.Bool(constant.BoolVal(cv))}
	case SInt:
		iv := constant.ToInt(cv)
		if iv.Kind() != constant.Int {
			panic(unsupported{"non-integer constant for integer type"})
		}
		bi, ok := new(big.Int).SetString(iv.ExactString(), 10)
		if !ok {
			panic(unsupported{"bad int constant"})
		}
		return &Value{T: t, Tm: e.ts.IntBig(bi)}
	case SStr:
		return &Value{T: t, Tm: e.strLit(constant.StringVal(cv))}
	case SFlt:
		return &Value{T: t, Tm: e.fltLit(cv.ExactString())}
	case SAny:
		// constant converted to interface: box by its default type
		dt := types.Default(e.defaultConstType(cv))
		return e.box(&State{}, e.constValue(cv, dt), t)
	}
	panic(unsupported{"constant sort " + string(s)})
}

func (e *Engine) defaultConstType(cv constant.Value) types.Type {
	switch cv.Kind() {
	case constant.Bool:
		return types.Typ[types.Bool]
	case constant.String:
		return types.Typ[types.String]
	case constant.Int:
		return types.Typ[types.Int]
	case constant.Float:
		return types.Typ[types.Float64]
	}
	return types.Typ[types.Int]
}

// ---- zero values / havoc --------------------------------------------------------------------

func (e *Engine) zeroValue(t types.Type) *Value {
	k, s := e.classify(t)
	ts := e.ts
	switch k {
	case kScalar:
		switch s {
		case SInt:
			return &Value{T: t, Tm: ts.Int(0)}
		case SBool:
			return &Value{T: t, Tm: ts.False()}
		case SStr:
			return &Value{T: t, Tm: e.strLit("")}
		case SFlt:
			return &Value{T: t, Tm: e.fltLit("0")}
		case SAny:
			return &Value{T: t, Tm: ts.App("any_nil", SAny)}
		}
	case kSlice:
		return &Value{T: t, Sl: &SliceVal{ts.Int(0), ts.Int(0), ts.Int(0)}}
	case kStruct:
		st := structOf(t)
		v := &Value{T: t, St: map[string]*Value{}}
		for i := 0; i < st.NumFields(); i++ {
			v.St[st.Field(i).Name()] = e.zeroValue(st.Field(i).Type())
		}
		return v
	case kArray:
		at := t.Underlying().(*types.Array)
		z := e.zeroValue(at.Elem())
		if z.Tm == nil {
			panic(unsupported{"array of non-scalar elements"})
		}
		return &Value{T: t, Tm: ts.App("(as const "+string(s)+")", s, z.Tm)}
	}
	panic(unsupported{"zero value of " + e.typeStr(t)})
}

// havocValue creates an arbitrary value of type t satisfying its type-level facts in state st.
func (e *Engine) havocValue(st *State, t types.Type, hint string) *Value {
	k, s := e.classify(t)
	ts := e.ts
	switch k {
	case kScalar:
		v := &Value{T: t, Tm: ts.Fresh(hint, s)}
		e.assumeType(st, v)
		return v
	case kSlice:
		v := &Value{T: t, Sl: &SliceVal{ts.Fresh(hint+".ptr", SInt), ts.Fresh(hint+".len", SInt), ts.Fresh(hint+".cap", SInt)}}
		e.assumeType(st, v)
		return v
	case kStruct:
		sty := structOf(t)
		v := &Value{T: t, St: map[string]*Value{}}
		for i := 0; i < sty.NumFields(); i++ {
			v.St[sty.Field(i).Name()] = e.havocValue(st, sty.Field(i).Type(), hint+"."+sty.Field(i).Name())
		}
		return v
	case kArray:
		return &Value{T: t, Tm: ts.Fresh(hint, s)}
	}
	panic(unsupported{"havoc of " + e.typeStr(t)})
}

// assumeType adds the facts every value of this Go type satisfies.
func (e *Engine) assumeType(st *State, v *Value) {
	ts := e.ts
	if v == nil || v.T == nil {
		return
	}
	switch {
	case v.Sl != nil:
		st.assume(ts.Le(ts.Int(0), v.Sl.Len))
		st.assume(ts.Le(v.Sl.Len, v.Sl.Cap))
		st.assume(ts.Le(ts.Int(0), v.Sl.Ptr))
		if st.alloc != nil {
			st.assume(ts.Le(ts.Add(v.Sl.Ptr, v.Sl.Cap), st.alloc))
		}
		st.assume(ts.Implies(ts.Gt(v.Sl.Cap, ts.Int(0)), ts.Gt(v.Sl.Ptr, ts.Int(0))))
		st.assume(ts.Le(v.Sl.Cap, ts.IntBig(maxSliceLen)))
	case v.St != nil:
		for _, f := range sortedKeys(v.St) {
			e.assumeType(st, v.St[f])
		}
	case v.Tm != nil && v.Tm.Sort == SInt:
		if lo, hi, ok := intRange(v.T); ok {
			if v.Tm.Int == nil {
				st.assume(ts.Le(ts.IntBig(lo), v.Tm))
				st.assume(ts.Le(v.Tm, ts.IntBig(hi)))
			}
			return
		}
		isUnsafe := false
		if b, ok := v.T.Underlying().(*types.Basic); ok && b.Kind() == types.UnsafePointer {
			isUnsafe = true
		}
		switch v.T.Underlying().(type) {
		case *types.Pointer, *types.Map, *types.Signature, *types.Chan:
			isUnsafe = true
		}
		if isUnsafe {
			if v.Tm.Int == nil {
				st.assume(ts.Le(ts.Int(0), v.Tm))
				if st.alloc != nil {
					st.assume(ts.Lt(v.Tm, st.alloc))
				}
			}
		}
	}
}

var maxSliceLen = new(big.Int).Lsh(big.NewInt(1), 48)

// ---- boxing into interfaces -----------------------------------------------------------------

func (e *Engine) box(st *State, v *Value, ifaceT types.Type) *Value {
	ts := e.ts
	if v.T == nil { // untyped nil
		return &Value{T: ifaceT, Tm: ts.App("any_nil", SAny)}
	}
	if _, isI := v.T.Underlying().(*types.Interface); isI {
		return &Value{T: ifaceT, Tm: v.Tm}
	}
	tag := ts.Int(int64(e.tagOf(v.T)))
	switch {
	case v.Sl != nil:
		// boxed slice: opaque reference
		return &Value{T: ifaceT, Tm: ts.App("any_ref", SAny, tag, v.Sl.Ptr)}
	case v.St != nil:
		// boxed struct value: immutable copy at a fresh address, kept in heaps of its own ("box.")
		addr := e.allocCells(st, ts.Int(1))
		e.boxMode++
		e.storeCell(st, "", addr, v.T, v)
		e.boxMode--
		return &Value{T: ifaceT, Tm: ts.App("any_ref", SAny, tag, addr)}
	case v.Tm != nil:
		switch v.Tm.Sort {
		case SInt:
			switch v.T.Underlying().(type) {
			case *types.Basic:
				return &Value{T: ifaceT, Tm: ts.App("any_int", SAny, tag, v.Tm)}
			default:
				return &Value{T: ifaceT, Tm: ts.App("any_ref", SAny, tag, v.Tm)}
			}
		case SBool:
			return &Value{T: ifaceT, Tm: ts.App("any_bool", SAny, tag, v.Tm)}
		case SStr:
			return &Value{T: ifaceT, Tm: ts.App("any_str", SAny, tag, v.Tm)}
		case SFlt:
			return &Value{T: ifaceT, Tm: ts.App("any_flt", SAny, tag, v.Tm)}
		}
	}
	panic(unsupported{"boxing of " + e.typeStr(v.T)})
}

// hasDynType is the condition "interface value a holds exactly dynamic type t".
func (e *Engine) hasDynType(a *Term, t types.Type) *Term {
	ts := e.ts
	tag := ts.Int(int64(e.tagOf(t)))
	k, s := e.classify(t)
	var ctor, tagSel string
	switch {
	case k == kSlice || k == kStruct:
		ctor, tagSel = "any_ref", "any_rtag"
	case s == SInt:
		if _, ok := t.Underlying().(*types.Basic); ok {
			ctor, tagSel = "any_int", "any_itag"
		} else {
			ctor, tagSel = "any_ref", "any_rtag"
		}
	case s == SBool:
		ctor, tagSel = "any_bool", "any_btag"
	case s == SStr:
		ctor, tagSel = "any_str", "any_stag"
	case s == SFlt:
		ctor, tagSel = "any_flt", "any_ftag"
	default:
		panic(unsupported{"type assertion to " + e.typeStr(t)})
	}
	return ts.And(ts.App("(_ is "+ctor+")", SBool, a), ts.Eq(ts.App(tagSel, SInt, a), tag))
}

func (e *Engine) unbox(st *State, a *Term, t types.Type) *Value {
	ts := e.ts
	k, s := e.classify(t)
	switch {
	case k == kStruct:
		addr := ts.App("any_raddr", SInt, a)
		e.boxMode++
		v := e.loadCell(st, "", addr, t)
		e.boxMode--
		return v
	case k == kSlice:
		panic(unsupported{"unboxing a slice"})
	case s == SInt:
		if _, ok := t.Underlying().(*types.Basic); ok {
			v := &Value{T: t, Tm: ts.App("any_ival", SInt, a)}
			e.assumeType(st, v)
			return v
		}
		v := &Value{T: t, Tm: ts.App("any_raddr", SInt, a)}
		e.assumeType(st, v)
		return v
	case s == SBool:
		return &Value{T: t, Tm: ts.App("any_bval", SBool, a)}
	case s == SStr:
		return &Value{T: t, Tm: ts.App("any_sval", SStr, a)}
	case s == SFlt:
		return &Value{T: t, Tm: ts.App("any_fval", SFlt, a)}
	}
	panic(unsupported{"unboxing " + e.typeStr(t)})
}

// ---- heap cells -----------------------------------------------------------------------------

func (e *Engine) allocCells(st *State, n *Term) *Term {
	ts := e.ts
	addr := st.alloc
	// every allocation occupies at least one address so that distinct objects have distinct addresses
	size := ts.Ite(ts.Gt(n, ts.Int(0)), n, ts.Int(1))
	if n.Int != nil {
		if n.Int.Sign() > 0 {
			size = n
		} else {
			size = ts.Int(1)
		}
	}
	st.alloc = ts.Add(st.alloc, size)
	return addr
}

func (e *Engine) loadCell(st *State, key string, addr *Term, t types.Type) *Value {
	ts := e.ts
	k, s := e.classify(t)
	if key != "" && e.curFx != nil && k != kStruct {
		e.curFx.onFieldRead(st, key, addr)
	}
	switch k {
	case kScalar, kArray:
		if key == "" {
			key = e.elemKey(t)
		}
		v := &Value{T: t, Tm: ts.Select(e.heapGet(st, key, ArrSort(s)), addr)}
		if k == kScalar {
			e.assumeType(st, v)
		}
		return v
	case kSlice:
		if key == "" {
			key = e.elemKey(t)
		}
		v := &Value{T: t, Sl: &SliceVal{
			Ptr: ts.Select(e.heapGet(st, key+"#p", ArrSort(SInt)), addr),
			Len: ts.Select(e.heapGet(st, key+"#l", ArrSort(SInt)), addr),
			Cap: ts.Select(e.heapGet(st, key+"#c", ArrSort(SInt)), addr),
		}}
		e.assumeType(st, v)
		return v
	case kStruct:
		sty := structOf(t)
		sn := e.structName(t)
		if e.boxMode > 0 {
			sn = "box." + sn
		} else {
			sn = e.nestPrefix(key) + sn
		}
		v := &Value{T: t, St: map[string]*Value{}}
		for i := 0; i < sty.NumFields(); i++ {
			f := sty.Field(i)
			v.St[f.Name()] = e.loadCell(st, sn+"."+f.Name(), addr, f.Type())
		}
		return v
	}
	panic(unsupported{"load of " + e.typeStr(t)})
}

func (e *Engine) storeCell(st *State, key string, addr *Term, t types.Type, v *Value) {
	ts := e.ts
	k, s := e.classify(t)
	switch k {
	case kScalar, kArray:
		if key == "" {
			key = e.elemKey(t)
		}
		if v.Tm == nil {
			panic(unsupported{"store of non-scalar into scalar cell " + key})
		}
		h := e.heapGet(st, key, ArrSort(s))
		st.heap[key] = ts.Store(h, addr, v.Tm)
		e.noteWrite(st, key, addr)
	case kSlice:
		if key == "" {
			key = e.elemKey(t)
		}
		if v.Sl == nil {
			panic(unsupported{"store of non-slice into slice cell " + key})
		}
		st.heap[key+"#p"] = ts.Store(e.heapGet(st, key+"#p", ArrSort(SInt)), addr, v.Sl.Ptr)
		st.heap[key+"#l"] = ts.Store(e.heapGet(st, key+"#l", ArrSort(SInt)), addr, v.Sl.Len)
		st.heap[key+"#c"] = ts.Store(e.heapGet(st, key+"#c", ArrSort(SInt)), addr, v.Sl.Cap)
		e.noteWrite(st, key, addr)
	case kStruct:
		sty := structOf(t)
		sn := e.structName(t)
		if e.boxMode > 0 {
			sn = "box." + sn
		} else {
			sn = e.nestPrefix(key) + sn
		}
		if v.St == nil {
			panic(unsupported{"store of non-struct into struct cell"})
		}
		for i := 0; i < sty.NumFields(); i++ {
			f := sty.Field(i)
			e.storeCell(st, sn+"."+f.Name(), addr, f.Type(), v.St[f.Name()])
		}
	default:
		panic(unsupported{"store of " + e.typeStr(t)})
	}
}

// noteWrite is the hook for invariant-bearing objects (type invariants); see typeinv.go.
func (e *Engine) noteWrite(st *State, key string, addr *Term) {
	if e.curFx != nil {
		e.curFx.noteWrite(st, key, addr)
	}
}

// ---- lvalues --------------------------------------------------------------------------------

// lval is an assignable location.
type lval struct {
	v      *types.Var // local (non-boxed) variable, possibly with a field path / array index
	path   []string   // struct field path inside the local
	aidx   *Term      // index into a local fixed array (after path)
	key    string     // heap cell key ("" = by type)
	addr   *Term      // heap address
	t      types.Type
	blank  bool
	gvar   string     // ghost variable name
	raw    bool       // element of a slice of invariant-bearing structs (or reached through a raw pointer)
	rawC   *Term      // condition under which the access is raw (nil = always)
	elemOf types.Type // set when the location is a slice element: the element type
	mapH   *mapHeaps  // element of a modelled map: heaps, map address, key
	mapM   *Term
	mapK   *Term
}

// loadLval reads the location, honouring raw access.
func (fx *fctx) loadLval(st *State, lv *lval) *Value {
	if lv.mapH != nil {
		e := fx.e
		z := e.zeroValue(lv.t)
		return &Value{T: lv.t, Tm: e.ts.Ite(e.mapHas(st, lv.mapH, lv.mapM, lv.mapK), e.mapGet(st, lv.mapH, lv.mapM, lv.mapK), z.Tm)}
	}
	saved, savedC := fx.rawAccess, fx.rawCond
	if lv.raw {
		fx.rawAccess = true
		fx.rawCond = lv.rawC
	}
	v := fx.e.loadCell(st, lv.key, lv.addr, lv.t)
	fx.rawAccess, fx.rawCond = saved, savedC
	return v
}

func (fx *fctx) evalLval(st *State, x ast.Expr) *lval {
	e := fx.e
	switch x := x.(type) {
	case *ast.ParenExpr:
		return fx.evalLval(st, x.X)
	case *ast.Ident:
		if x.Name == "_" {
			return &lval{blank: true}
		}
		obj := e.P.Info.ObjectOf(x)
		v, ok := obj.(*types.Var)
		if !ok {
			e.unsup(x, "assignment to non-variable %s", x.Name)
		}
		if fx.isGlobal(v) {
			return &lval{key: e.globalKey(v), addr: e.ts.Int(0), t: v.Type()}
		}
		if fx.boxed[v] {
			cur := st.vars[v]
			if cur == nil {
				e.unsup(x, "boxed variable %s not allocated", v.Name())
			}
			return &lval{addr: cur.Tm, t: v.Type()}
		}
		return &lval{v: v, t: v.Type()}
	case *ast.SelectorExpr:
		sel := e.P.Info.Selections[x]
		if sel == nil {
			e.unsup(x, "assignment to qualified identifier")
		}
		if sel.Kind() != types.FieldVal {
			e.unsup(x, "assignment to non-field selector")
		}
		return fx.fieldLval(st, x.X, sel, x)
	case *ast.IndexExpr:
		bt := e.P.Info.TypeOf(x.X)
		switch u := bt.Underlying().(type) {
		case *types.Slice:
			sv := fx.eval(st, x.X)
			idx := fx.evalInt(st, x.Index)
			fx.check(st, "index", abbrev(e.exprStr(x)), e.ts.And(e.ts.Le(e.ts.Int(0), idx), e.ts.Lt(idx, sv.Sl.Len)), x, "index in range")
			return &lval{addr: e.ts.Add(sv.Sl.Ptr, idx), t: u.Elem(), raw: e.isRawElem(u.Elem()), elemOf: u.Elem()}
		case *types.Array:
			base := fx.evalLval(st, x.X)
			idx := fx.evalInt(st, x.Index)
			fx.check(st, "index", abbrev(e.exprStr(x)), e.ts.And(e.ts.Le(e.ts.Int(0), idx), e.ts.Lt(idx, e.ts.Int(u.Len()))), x, "array index in range")
			if base.v != nil && base.aidx == nil {
				return &lval{v: base.v, path: base.path, aidx: idx, t: u.Elem()}
			}
			e.unsup(x, "array element in heap")
		case *types.Map:
			m := fx.eval(st, x.X)
			fx.check(st, "nilmap", abbrev(e.exprStr(x)), e.ts.Ne(m.Tm, e.ts.Int(0)), x, "assignment to entry in nil map")
			k := fx.eval(st, x.Index)
			if mt := e.mapModelled(bt); mt != nil {
				return &lval{mapH: e.mapHeapsOf(mt), mapM: m.Tm, mapK: k.Tm, t: u.Elem()}
			}
			return &lval{blank: true, t: u.Elem()}
		case *types.Pointer:
			if at, ok := u.Elem().Underlying().(*types.Array); ok {
				_ = at
				e.unsup(x, "index through pointer to array")
			}
		}
		e.unsup(x, "index assignment on %s", e.typeStr(bt))
	case *ast.StarExpr:
		p := fx.eval(st, x.X)
		fx.check(st, "nil", abbrev(e.exprStr(x)), e.ts.Ne(p.Tm, e.ts.Int(0)), x, "nil pointer dereference")
		return &lval{addr: p.Tm, t: p.T.Underlying().(*types.Pointer).Elem(), raw: p.Raw, rawC: p.RawC}
	}
	e.unsup(x, "unsupported lvalue %T", x)
	return nil
}

func (fx *fctx) fieldLval(st *State, recv ast.Expr, sel *types.Selection, n ast.Expr) *lval {
	e := fx.e
	// walk the (possibly embedded) field path
	rt := e.P.Info.TypeOf(recv)
	idxs := sel.Index()
	_, isPtr := rt.Underlying().(*types.Pointer)
	if isPtr {
		p := fx.eval(st, recv)
		fx.check(st, "nil", abbrev(e.exprStr(n)), e.ts.Ne(p.Tm, e.ts.Int(0)), n, "nil pointer dereference")
		cur := rt.Underlying().(*types.Pointer).Elem()
		addr := p.Tm
		key := ""
		rawRecv := p.Raw
		rawRecvC := p.RawC
		for _, i := range idxs {
			sty := structOf(cur)
			if _, ok := cur.Underlying().(*types.Pointer); ok {
				// embedded pointer: load it
				pv := e.loadCell(st, key, addr, cur)
				fx.check(st, "nil", abbrev(e.exprStr(n)), e.ts.Ne(pv.Tm, e.ts.Int(0)), n, "nil embedded pointer")
				addr = pv.Tm
				cur = cur.Underlying().(*types.Pointer).Elem()
				sty = structOf(cur)
			}
			f := sty.Field(i)
			key = e.nestPrefix(key) + e.structName(cur) + "." + f.Name()
			cur = f.Type()
		}
		return &lval{key: key, addr: addr, t: cur, raw: rawRecv, rawC: rawRecvC}
	}
	base := fx.evalLval(st, recv)
	cur := rt
	if base.addr != nil {
		key := base.key
		addr := base.addr
		for _, i := range idxs {
			sty := structOf(cur)
			f := sty.Field(i)
			key = e.nestPrefix(key) + e.structName(cur) + "." + f.Name()
			cur = f.Type()
		}
		return &lval{key: key, addr: addr, t: cur, raw: base.raw, rawC: base.rawC}
	}
	if base.v != nil && base.aidx == nil {
		path := append([]string{}, base.path...)
		for _, i := range idxs {
			sty := structOf(cur)
			f := sty.Field(i)
			path = append(path, f.Name())
			cur = f.Type()
		}
		return &lval{v: base.v, path: path, t: cur}
	}
	e.unsup(n, "unsupported field lvalue")
	return nil
}

func (fx *fctx) assign(st *State, lv *lval, v *Value, n ast.Node) {
	e := fx.e
	if lv.blank {
		return
	}
	v = fx.convertForAssign(st, v, lv.t)
	if lv.mapH != nil {
		if v.Tm == nil {
			e.unsup(n, "non-scalar value stored into a modelled map")
		}
		e.mapSet(st, lv.mapH, lv.mapM, lv.mapK, v.Tm)
		return
	}
	if lv.addr != nil {
		if lv.elemOf != nil && lv.key == "" && e.nonNilElem(lv.elemOf) && v.Tm != nil && !fx.spec {
			fx.check(st, "elem-nonnil", "", e.ts.Ne(v.Tm, e.ts.Int(0)), n, "value stored into a slice element is not nil")
		}
		if v.Sl != nil {
			fx.publishSlice(st, v, n, "store")
		}
		saved, savedC := fx.rawAccess, fx.rawCond
		if lv.raw {
			fx.rawAccess = true
			fx.rawCond = lv.rawC
		}
		defer func() { fx.rawCond = savedC }()
		// a raw pointer stored into the heap escapes
		if !lv.raw || true {
			fx.onEscape(st, v, n, "store")
		}
		// a function that protects a slice across calls (ghostProtect: the VM's operand stack) must not create
		// heap aliases of its slots: the protection argument is that nobody else can reach them
		if v != nil && v.Raw && v.Tm != nil && len(fx.protected) > 0 && !fx.spec && !fx.localAddr[lv.addr.id] {
			g := e.ts.False()
			if v.RawC != nil {
				g = e.ts.Not(v.RawC)
			}
			g = e.ts.Or(e.ts.Eq(v.Tm, e.ts.Int(0)), g)
			fx.assert(st, "raw-alias", "", g, n, nil, "no pointer into a protected slice (the operand stack) is stored in the heap")
		}
		e.storeCell(st, lv.key, lv.addr, lv.t, v)
		fx.rawAccess = saved
		return
	}
	cur := st.vars[lv.v]
	if len(lv.path) == 0 && lv.aidx == nil {
		st.vars[lv.v] = v
		return
	}
	if cur == nil {
		cur = e.zeroValue(lv.v.Type())
	}
	st.vars[lv.v] = updatePath(e, cur, lv.path, lv.aidx, v)
}

func updatePath(e *Engine, cur *Value, path []string, aidx *Term, v *Value) *Value {
	if len(path) == 0 {
		if aidx != nil {
			return &Value{T: cur.T, Tm: e.ts.Store(cur.Tm, aidx, v.Tm)}
		}
		return v
	}
	out := &Value{T: cur.T, St: map[string]*Value{}}
	for k, f := range cur.St {
		out.St[k] = f
	}
	out.St[path[0]] = updatePath(e, cur.St[path[0]], path[1:], aidx, v)
	return out
}

// convertForAssign performs the implicit conversion to interface types.
func (fx *fctx) convertForAssign(st *State, v *Value, target types.Type) *Value {
	if target == nil {
		return v
	}
	if _, isI := target.Underlying().(*types.Interface); isI {
		if v.T == nil || v.Tm == nil || v.Tm.Sort != SAny {
			return fx.e.box(st, v, target)
		}
		return &Value{T: target, Tm: v.Tm}
	}
	if v.T == nil { // untyped nil to pointer/slice/map/func
		return fx.e.zeroValue(target)
	}
	return v
}

// ---- expressions ----------------------------------------------------------------------------

func (fx *fctx) evalInt(st *State, x ast.Expr) *Term {
	v := fx.eval(st, x)
	if v.Tm == nil || v.Tm.Sort != SInt {
		fx.e.unsup(x, "expected integer expression")
	}
	return v.Tm
}

func (fx *fctx) evalBool(st *State, x ast.Expr) *Term {
	v := fx.eval(st, x)
	if v.Tm == nil || v.Tm.Sort != SBool {
		fx.e.unsup(x, "expected boolean expression, got %v", v)
	}
	return v.Tm
}

func (fx *fctx) isGlobal(v *types.Var) bool {
	return v.Parent() == fx.e.P.Pkg.Types.Scope() || (v.Pkg() != nil && v.Pkg() != fx.e.P.Pkg.Types && v.Parent() == v.Pkg().Scope())
}

func (fx *fctx) eval(st *State, x ast.Expr) *Value {
	e := fx.e
	ts := e.ts
	if tv, ok := e.P.Info.Types[x]; ok && tv.Value != nil {
		return e.constValue(tv.Value, tv.Type)
	}
	switch x := x.(type) {
	case *ast.ParenExpr:
		return fx.eval(st, x.X)
	case *ast.Ident:
		return fx.evalIdent(st, x)
	case *ast.BasicLit:
		e.unsup(x, "literal without constant value")
	case *ast.FuncLit:
		return &Value{T: e.P.Info.TypeOf(x), Cl: &Closure{Lit: x}}
	case *ast.UnaryExpr:
		return fx.evalUnary(st, x)
	case *ast.BinaryExpr:
		return fx.evalBinary(st, x)
	case *ast.StarExpr:
		p := fx.eval(st, x.X)
		fx.check(st, "nil", abbrev(e.exprStr(x)), ts.Ne(p.Tm, ts.Int(0)), x, "nil pointer dereference")
		return fx.loadLval(st, &lval{addr: p.Tm, t: p.T.Underlying().(*types.Pointer).Elem(), raw: p.Raw, rawC: p.RawC})
	case *ast.SelectorExpr:
		return fx.evalSelector(st, x)
	case *ast.IndexExpr:
		return fx.evalIndex(st, x)
	case *ast.SliceExpr:
		return fx.evalSliceExpr(st, x)
	case *ast.CallExpr:
		vals := fx.evalCall(st, x)
		if len(vals) != 1 {
			e.unsup(x, "call used as single value returns %d values", len(vals))
		}
		return vals[0]
	case *ast.CompositeLit:
		return fx.evalComposite(st, x)
	case *ast.TypeAssertExpr:
		a := fx.eval(st, x.X)
		t := e.P.Info.TypeOf(x.Type)
		if _, isI := t.Underlying().(*types.Interface); isI {
			e.unsup(x, "assertion to interface type")
		}
		fx.check(st, "typeassert", abbrev(e.exprStr(x)), e.hasDynType(a.Tm, t), x, "type assertion holds")
		return e.unbox(st, a.Tm, t)
	case *ast.KeyValueExpr:
		return fx.eval(st, x.Value)
	}
	e.unsup(x, "unsupported expression %T", x)
	return nil
}

func (fx *fctx) evalIdent(st *State, x *ast.Ident) *Value {
	e := fx.e
	obj := e.P.Info.ObjectOf(x)
	switch o := obj.(type) {
	case *types.Nil:
		t := e.P.Info.TypeOf(x)
		if t != nil {
			if b, ok := t.(*types.Basic); !ok || b.Kind() != types.UntypedNil {
				return e.zeroValue(t)
			}
		}
		return &Value{T: nil, Tm: e.ts.Int(0)}
	case *types.Var:
		if fx.isGlobal(o) {
			return fx.loadGlobal(st, o)
		}
		v, ok := st.vars[o]
		if !ok {
			// a variable of an enclosing clause function bound by name
			if b := fx.lookupByName(st, o); b != nil {
				return b
			}
			e.unsup(x, "variable %s has no value", o.Name())
		}
		if fx.boxed[o] {
			return e.loadCell(st, "", v.Tm, o.Type())
		}
		return v
	case *types.Func:
		return &Value{T: o.Type(), Tm: e.ts.Var("func."+o.FullName(), SInt)}
	case *types.Const:
		return e.constValue(o.Val(), o.Type())
	}
	e.unsup(x, "unsupported identifier %s (%T)", x.Name, obj)
	return nil
}

func (fx *fctx) lookupByName(st *State, o *types.Var) *Value { return nil }

func (fx *fctx) loadGlobal(st *State, o *types.Var) *Value {
	e := fx.e
	v := e.loadCell(st, e.globalKey(o), e.ts.Int(0), o.Type())
	if !fx.inGlobalInv {
		for _, gi := range e.P.CF.GlobalInvs {
			if gi.Var == o.Name() && o.Pkg() == e.P.Pkg.Types && gi.Clause.Fn != nil {
				fx.inGlobalInv = true
				g := fx.evalClause(st, nil, gi.Clause, map[string]*Value{})
				fx.inGlobalInv = false
				st.assume(g)
			}
		}
	}
	// an immutable-after-init pointer-like global initialised by an allocation is non-nil and was allocated before any
	// function ran: it differs from everything allocated during the call
	if e.globalsAlloc[o] && e.effects != nil && !e.effects.GlobalWritten[o] && v.Tm != nil && v.Tm.Sort == SInt {
		st.assume(e.ts.Gt(v.Tm, e.ts.Int(0)))
		if fx.preParamAlloc != nil {
			st.assume(e.ts.Lt(v.Tm, fx.preParamAlloc))
		} else if fx.entry != nil && fx.entry.alloc != nil {
			st.assume(e.ts.Lt(v.Tm, fx.entry.alloc))
		}
	}
	// immutable-after-init globals initialised by a composite literal have a known length / are non-nil
	if cl, ok := e.globalsInit[o]; ok && e.effects != nil && !e.effects.GlobalWritten[o] {
		if v.Sl != nil {
			st.assume(e.ts.Eq(v.Sl.Len, e.ts.Int(int64(len(cl.Elts)))))
		} else if _, isMap := o.Type().Underlying().(*types.Map); isMap {
			st.assume(e.ts.Ne(v.Tm, e.ts.Int(0)))
		}
	}
	return v
}

// globalKey: the heap key of a package-level variable.  An unexported variable that no function assigns keeps its
// initial value: its cell is immune to havoc (calls of unknown code, loop heads), like the immutable boxed copies.
func (e *Engine) globalKey(o *types.Var) string {
	if e.effects != nil && !e.effects.GlobalWritten[o] && !o.Exported() {
		return "box.global." + globalName(o)
	}
	return "global." + globalName(o)
}

func globalName(o *types.Var) string {
	if o.Pkg() != nil {
		return o.Pkg().Name() + "." + o.Name()
	}
	return o.Name()
}

func (fx *fctx) evalUnary(st *State, x *ast.UnaryExpr) *Value {
	e := fx.e
	ts := e.ts
	switch x.Op {
	case token.AND:
		return fx.evalAddrOf(st, x)
	case token.NOT:
		return &Value{T: e.P.Info.TypeOf(x), Tm: ts.Not(fx.evalBool(st, x.X))}
	case token.SUB:
		v := fx.eval(st, x.X)
		t := e.P.Info.TypeOf(x)
		if v.Tm.Sort == SFlt {
			return &Value{T: t, Tm: ts.App("flt_neg", SFlt, v.Tm)}
		}
		return &Value{T: t, Tm: fx.wrap(ts.Neg(v.Tm), t)}
	case token.ADD:
		return fx.eval(st, x.X)
	case token.XOR:
		v := fx.eval(st, x.X)
		t := e.P.Info.TypeOf(x)
		// ^x == -x-1 for signed; for unsigned max-x
		if isUnsigned(t) {
			_, hi, _ := intRange(t)
			return &Value{T: t, Tm: ts.Sub(ts.IntBig(hi), v.Tm)}
		}
		return &Value{T: t, Tm: ts.Sub(ts.Neg(v.Tm), ts.Int(1))}
	}
	e.unsup(x, "unary operator %s", x.Op)
	return nil
}

func (fx *fctx) wrap(t *Term, typ types.Type) *Term {
	if fx.spec {
		return t
	}
	if t.Int != nil {
		lo, hi, ok := intRange(typ)
		if ok && t.Int.Cmp(lo) >= 0 && t.Int.Cmp(hi) <= 0 {
			return t
		}
	}
	w := wrapFn(typ)
	if w == "" {
		return t
	}
	return fx.e.ts.App(w, SInt, t)
}

func (fx *fctx) evalAddrOf(st *State, x *ast.UnaryExpr) *Value {
	e := fx.e
	t := e.P.Info.TypeOf(x)
	if t == nil {
		// synthesised &x (implicit address for a pointer-receiver call)
		if ot := e.P.Info.TypeOf(x.X); ot != nil {
			t = types.NewPointer(ot)
		}
	}
	switch y := x.X.(type) {
	case *ast.CompositeLit:
		v := fx.evalComposite(st, y)
		addr := e.allocCells(st, e.ts.Int(1))
		e.storeCell(st, "", addr, v.T, v)
		return &Value{T: t, Tm: addr}
	case *ast.Ident:
		obj, _ := e.P.Info.ObjectOf(y).(*types.Var)
		if obj != nil && fx.boxed[obj] {
			return &Value{T: t, Tm: st.vars[obj].Tm}
		}
		if obj != nil && fx.isGlobal(obj) {
			if e.isOpaqueStruct(obj.Type()) {
				// a package-level object of a type declared elsewhere (sync.Pool, sync.Mutex, ...): an opaque handle that
				// existed before the call
				h := e.ts.Var("gaddr."+globalName(obj), SInt)
				st.assume(e.ts.Gt(h, e.ts.Int(0)))
				if fx.preParamAlloc != nil {
					st.assume(e.ts.Lt(h, fx.preParamAlloc))
				}
				return &Value{T: t, Tm: h}
			}
			e.unsup(x, "address of global %s", obj.Name())
		}
		e.unsup(x, "address of non-boxed variable %s", y.Name)
	case *ast.IndexExpr:
		lv := fx.evalLval(st, y)
		if lv.addr != nil && lv.key == "" {
			return &Value{T: t, Tm: lv.addr, Raw: lv.raw}
		}
	case *ast.SelectorExpr:
		lv := fx.evalLval(st, y)
		if lv.addr != nil {
			// pointer to a struct-typed field: the nested struct shares the address (offset-0 rule)
			if k, _ := e.classify(lv.t); k == kStruct {
				e.checkNestedUnique(y, lv.t)
				return &Value{T: t, Tm: lv.addr}
			}
		}
	case *ast.ParenExpr:
		return fx.evalAddrOf(st, &ast.UnaryExpr{Op: token.AND, X: y.X, OpPos: x.OpPos})
	}
	e.unsup(x, "unsupported address-of %s", e.exprStr(x))
	return nil
}

func (e *Engine) checkNestedUnique(n ast.Node, t types.Type) {
	// the offset-0 rule is sound only if the outer object embeds one struct of this type; checked in typeinv/frame setup
}

func (fx *fctx) evalSelector(st *State, x *ast.SelectorExpr) *Value {
	e := fx.e
	sel := e.P.Info.Selections[x]
	if sel == nil {
		// qualified identifier pkg.Name
		obj := e.P.Info.ObjectOf(x.Sel)
		switch o := obj.(type) {
		case *types.Var:
			return fx.loadGlobal(st, o)
		case *types.Func:
			return &Value{T: o.Type(), Tm: e.ts.Var("func."+o.FullName(), SInt)}
		case *types.Const:
			return e.constValue(o.Val(), o.Type())
		}
		e.unsup(x, "qualified identifier %s", e.exprStr(x))
	}
	switch sel.Kind() {
	case types.FieldVal:
		rt := e.P.Info.TypeOf(x.X)
		if _, isPtr := rt.Underlying().(*types.Pointer); isPtr {
			lv := fx.fieldLval(st, x.X, sel, x)
			return fx.loadLval(st, lv)
		}
		// struct value: evaluate and project
		base := fx.eval(st, x.X)
		cur := base
		ct := rt
		for _, i := range sel.Index() {
			if cur.St == nil {
				if p, ok := ct.Underlying().(*types.Pointer); ok {
					// embedded pointer inside a struct value
					fx.check(st, "nil", abbrev(e.exprStr(x)), e.ts.Ne(cur.Tm, e.ts.Int(0)), x, "nil embedded pointer")
					sty := structOf(p.Elem())
					f := sty.Field(i)
					cur = e.loadCell(st, e.structName(p.Elem())+"."+f.Name(), cur.Tm, f.Type())
					ct = f.Type()
					continue
				}
				e.unsup(x, "field of non-struct value")
			}
			sty := structOf(ct)
			f := sty.Field(i)
			cur = cur.St[f.Name()]
			ct = f.Type()
		}
		return cur
	case types.MethodVal:
		// method value: opaque function handle
		return &Value{T: e.P.Info.TypeOf(x), Tm: e.ts.Fresh("methodval", SInt)}
	}
	e.unsup(x, "selector kind")
	return nil
}

func (fx *fctx) evalIndex(st *State, x *ast.IndexExpr) *Value {
	e := fx.e
	ts := e.ts
	bt := e.P.Info.TypeOf(x.X)
	if bt == nil {
		e.unsup(x, "index: no type")
	}
	switch u := bt.Underlying().(type) {
	case *types.Slice:
		sv := fx.eval(st, x.X)
		idx := fx.evalInt(st, x.Index)
		fx.check(st, "index", abbrev(e.exprStr(x)), ts.And(ts.Le(ts.Int(0), idx), ts.Lt(idx, sv.Sl.Len)), x, "index in range")
		v := fx.loadLval(st, &lval{addr: ts.Add(sv.Sl.Ptr, idx), t: u.Elem(), raw: e.isRawElem(u.Elem())})
		fx.onRead(st, v, x)
		if !fx.spec && e.nonNilElem(u.Elem()) && v.Tm != nil && !fx.isMade(sv.Sl.Ptr) {
			st.assume(ts.Ne(v.Tm, ts.Int(0)))
		}
		if tab := fx.funcTableOf(x.X); tab != nil {
			v = &Value{T: v.T, Tm: v.Tm, Table: &funcTable{Global: tab.Global, Idx: idx, Entries: tab.Entries}}
			// every entry of the table is a declared function: the value is not nil
			st.assume(ts.Ne(v.Tm, ts.Int(0)))
		}
		return v
	case *types.Array:
		av := fx.eval(st, x.X)
		idx := fx.evalInt(st, x.Index)
		fx.check(st, "index", abbrev(e.exprStr(x)), ts.And(ts.Le(ts.Int(0), idx), ts.Lt(idx, ts.Int(u.Len()))), x, "array index in range")
		v := &Value{T: u.Elem(), Tm: ts.Select(av.Tm, idx)}
		e.assumeType(st, v)
		return v
	case *types.Basic: // string
		sv := fx.eval(st, x.X)
		idx := fx.evalInt(st, x.Index)
		fx.check(st, "index", abbrev(e.exprStr(x)), ts.And(ts.Le(ts.Int(0), idx), ts.Lt(idx, ts.App("str_len", SInt, sv.Tm))), x, "string index in range")
		v := &Value{T: types.Typ[types.Uint8], Tm: ts.App("str_at", SInt, sv.Tm, idx)}
		e.assumeType(st, v)
		return v
	case *types.Map:
		if mt := e.mapModelled(bt); mt != nil {
			h := e.mapHeapsOf(mt)
			m := fx.eval(st, x.X)
			k := fx.eval(st, x.Index)
			v := &Value{T: u.Elem(), Tm: ts.Ite(e.mapHas(st, h, m.Tm, k.Tm), e.mapGet(st, h, m.Tm, k.Tm), e.zeroValue(u.Elem()).Tm)}
			e.assumeType(st, v)
			return v
		}
		fx.eval(st, x.X)
		fx.eval(st, x.Index)
		v := e.havocValue(st, u.Elem(), "mapval")
		fx.onRead(st, v, x)
		if v.Tm != nil && v.Tm.Sort == SInt {
			if g := fx.mapValsFact(st, x.X, v); g != nil {
				// a missing key yields the zero value
				st.assume(ts.Or(ts.Eq(v.Tm, ts.Int(0)), g))
			}
		}
		return v
	case *types.Signature:
		// generic instantiation
		return fx.eval(st, x.X)
	}
	e.unsup(x, "index of %s", e.typeStr(bt))
	return nil
}

func (fx *fctx) evalSliceExpr(st *State, x *ast.SliceExpr) *Value {
	e := fx.e
	ts := e.ts
	bt := e.P.Info.TypeOf(x.X)
	t := e.P.Info.TypeOf(x)
	var lo, hi, mx *Term
	base := fx.eval(st, x.X)
	if x.Low != nil {
		lo = fx.evalInt(st, x.Low)
	} else {
		lo = ts.Int(0)
	}
	switch bt.Underlying().(type) {
	case *types.Slice:
		if x.High != nil {
			hi = fx.evalInt(st, x.High)
		} else {
			hi = base.Sl.Len
		}
		if x.Max != nil {
			mx = fx.evalInt(st, x.Max)
		} else {
			mx = base.Sl.Cap
		}
		goal := ts.And(ts.Le(ts.Int(0), lo), ts.Le(lo, hi), ts.Le(hi, mx), ts.Le(mx, base.Sl.Cap))
		fx.check(st, "slice", abbrev(e.exprStr(x)), goal, x, "slice bounds in range (checked against cap)")
		return &Value{T: t, Sl: &SliceVal{Ptr: ts.Add(base.Sl.Ptr, lo), Len: ts.Sub(hi, lo), Cap: ts.Sub(mx, lo)}}
	case *types.Basic:
		ln := ts.App("str_len", SInt, base.Tm)
		if x.High != nil {
			hi = fx.evalInt(st, x.High)
		} else {
			hi = ln
		}
		goal := ts.And(ts.Le(ts.Int(0), lo), ts.Le(lo, hi), ts.Le(hi, ln))
		fx.check(st, "slice", abbrev(e.exprStr(x)), goal, x, "string slice bounds in range")
		r := ts.App("str_sub", SStr, base.Tm, lo, hi)
		st.assume(ts.Eq(ts.App("str_len", SInt, r), ts.Sub(hi, lo)))
		return &Value{T: t, Tm: r}
	}
	e.unsup(x, "slice expression on %s", e.typeStr(bt))
	return nil
}

func (fx *fctx) evalComposite(st *State, x *ast.CompositeLit) *Value {
	e := fx.e
	ts := e.ts
	t := e.P.Info.TypeOf(x)
	switch u := t.Underlying().(type) {
	case *types.Struct:
		if e.isOpaqueStruct(t) {
			return e.havocValue(st, t, "extstruct")
		}
		v := e.zeroValue(t)
		for i, el := range x.Elts {
			var fname string
			var fv ast.Expr
			if kv, ok := el.(*ast.KeyValueExpr); ok {
				fname = kv.Key.(*ast.Ident).Name
				fv = kv.Value
			} else {
				fname = u.Field(i).Name()
				fv = el
			}
			var ft types.Type
			for j := 0; j < u.NumFields(); j++ {
				if u.Field(j).Name() == fname {
					ft = u.Field(j).Type()
				}
			}
			val := fx.evalElt(st, fv, ft)
			v.St[fname] = fx.convertForAssign(st, val, ft)
		}
		return v
	case *types.Slice:
		n := int64(len(x.Elts))
		addr := e.allocCells(st, ts.Int(n))
		for i, el := range x.Elts {
			if kv, ok := el.(*ast.KeyValueExpr); ok {
				_ = kv
				e.unsup(x, "keyed slice literal")
			}
			val := fx.evalElt(st, el, u.Elem())
			e.storeCell(st, "", ts.Add(addr, ts.Int(int64(i))), u.Elem(), fx.convertForAssign(st, val, u.Elem()))
		}
		return &Value{T: t, Sl: &SliceVal{Ptr: addr, Len: ts.Int(n), Cap: ts.Int(n)}}
	case *types.Map:
		if mt := e.mapModelled(t); mt != nil {
			h := e.mapHeapsOf(mt)
			addr := e.mapMake(st, h)
			for _, el := range x.Elts {
				if kv, ok := el.(*ast.KeyValueExpr); ok {
					k := fx.eval(st, kv.Key)
					v := fx.evalElt(st, kv.Value, u.Elem())
					e.mapSet(st, h, addr, k.Tm, v.Tm)
				}
			}
			return &Value{T: t, Tm: addr}
		}
		for _, el := range x.Elts {
			if kv, ok := el.(*ast.KeyValueExpr); ok {
				fx.eval(st, kv.Key)
				fx.evalElt(st, kv.Value, u.Elem())
			}
		}
		addr := e.allocCells(st, ts.Int(1))
		return &Value{T: t, Tm: addr}
	case *types.Array:
		v := e.zeroValue(t)
		for i, el := range x.Elts {
			val := fx.evalElt(st, el, u.Elem())
			v = &Value{T: t, Tm: ts.Store(v.Tm, ts.Int(int64(i)), val.Tm)}
		}
		return v
	}
	e.unsup(x, "composite literal of %s", e.typeStr(t))
	return nil
}

// evalElt evaluates an element of a composite literal, which may elide its type.
func (fx *fctx) evalElt(st *State, x ast.Expr, t types.Type) *Value {
	if cl, ok := x.(*ast.CompositeLit); ok && cl.Type == nil {
		// elided type: &T{} when t is a pointer
		if p, ok := t.Underlying().(*types.Pointer); ok {
			_ = p
			v := fx.evalComposite(st, cl)
			addr := fx.e.allocCells(st, fx.e.ts.Int(1))
			fx.e.storeCell(st, "", addr, v.T, v)
			return &Value{T: t, Tm: addr}
		}
	}
	return fx.eval(st, x)
}

func (fx *fctx) onRead(st *State, v *Value, n ast.Node) {
	fx.applyTypeInv(st, v, n)
}

// isRawElem: elements of slices of structs with a type invariant are "raw" (see typeinv.go).
func (e *Engine) isRawElem(t types.Type) bool {
	if _, ok := t.Underlying().(*types.Struct); !ok {
		return false
	}
	return e.typeInvForType(t) != nil
}

// funcTableOf: x denotes a package-level slice that is never assigned after initialisation and whose
// initialiser lists functions / method expressions.
func (fx *fctx) funcTableOf(x ast.Expr) *funcTable {
	e := fx.e
	id, ok := x.(*ast.Ident)
	if !ok {
		return nil
	}
	v, ok := e.P.Info.Uses[id].(*types.Var)
	if !ok || !fx.isGlobal(v) || e.effects == nil || e.effects.GlobalWritten[v] {
		return nil
	}
	cl := e.globalsInit[v]
	if cl == nil {
		return nil
	}
	var entries []*types.Func
	for _, el := range cl.Elts {
		var fn *types.Func
		switch f := el.(type) {
		case *ast.Ident:
			fn, _ = e.P.Info.Uses[f].(*types.Func)
		case *ast.SelectorExpr:
			if sel := e.P.Info.Selections[f]; sel != nil {
				fn, _ = sel.Obj().(*types.Func)
			} else {
				fn, _ = e.P.Info.Uses[f.Sel].(*types.Func)
			}
		}
		if fn == nil {
			return nil
		}
		entries = append(entries, fn)
	}
	if len(entries) == 0 {
		return nil
	}
	return &funcTable{Global: v, Entries: entries}
}

// strLitLen: the byte length of the string literal a term stands for (if it is one).
func (e *Engine) strLitLen(t *Term) (int, bool) {
	for s, lt := range e.strLits {
		if lt == t {
			return len(s), true
		}
	}
	return 0, false
}
