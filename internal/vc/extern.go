package vc

import (
	"go/ast"
	"go/constant"
	"go/token"
	"go/types"
	"reflect"
	"strings"
)

// evalCall wraps the inner evaluation with the ghost hooks attached to call sites.
func (fx *fctx) evalCall(st *State, ce *ast.CallExpr) []*Value {
	vals := fx.evalCallInner(st, ce)
	if ref, ok := fx.callIndex[ce]; ok && !fx.spec && fx.con != nil && len(fx.con.Hooks) > 0 {
		fx.runHooks(st, "call", ref.n, ref.name, ce, vals)
	}
	return vals
}

// callExternal models a function or method declared outside the package.
func (fx *fctx) callExternal(st *State, fn *types.Func, recv *Value, recvExpr ast.Expr, ce *ast.CallExpr) []*Value {
	e := fx.e
	ts := e.ts
	sig := fn.Type().(*types.Signature)
	name := fn.FullName()
	e.Assumptions["external "+name+": total, no effect on package heap beyond its documented model"] = true
	var args []*Value
	switch name {
	case "sort.Slice":
		return fx.modelSortSlice(st, ce)
	}
	args = fx.evalArgs(st, ce, nil, sig)
	// precall hooks on external calls see the source-level arguments (variadic arguments are not packed)
	if !fx.spec && fx.con != nil && len(fx.con.Hooks) > 0 {
		if ref, ok := fx.callIndex[ce]; ok && fx.hasHook("precall", ref.n, ref.name) {
			var plain []*Value
			for _, a := range ce.Args {
				plain = append(plain, fx.eval(st, a))
			}
			fx.preCallHooks(st, ce, plain)
		}
	}
	results := func() []*Value {
		var out []*Value
		for i := 0; i < sig.Results().Len(); i++ {
			out = append(out, e.havocValue(st, sig.Results().At(i).Type(), fn.Name()+".ret"))
		}
		return out
	}
	newErr := func() *Value {
		addr := e.allocCells(st, ts.Int(1))
		return &Value{T: types.Universe.Lookup("error").Type(), Tm: ts.App("any_ref", SAny, ts.Int(int64(e.tagOfName("*errors.errorString"))), addr)}
	}
	switch name {
	case "errors.New", "fmt.Errorf":
		return []*Value{newErr()}
	case "fmt.Sprintf":
		r := results()
		// length of the result is at least the number of literal (non-verb) bytes of a constant format
		if len(ce.Args) > 0 {
			if tv, ok := e.P.Info.Types[ce.Args[0]]; ok && tv.Value != nil {
				f := constantString(tv.Value)
				lit := 0
				for i := 0; i < len(f); i++ {
					if f[i] == '%' {
						i++
						for i < len(f) && strings.ContainsRune("+-# 0123456789.", rune(f[i])) {
							i++
						}
						if i < len(f) && (f[i] == '%' || f[i] == 'd' || f[i] == 'c') {
							lit++ // %% is one byte; %d and %c print at least one byte
						}
						continue
					}
					lit++
				}
				st.assume(ts.Ge(ts.App("str_len", SInt, r[0].Tm), ts.Int(int64(lit))))
				e.Assumptions["fmt.Sprintf: result is at least as long as the literal bytes of its constant format"] = true
			}
		}
		return r
	case "strings.Repeat":
		// len(Repeat(s, n)) == len(s) * n for n >= 0 (a negative count panics: checked)
		r := results()
		if len(args) == 2 && args[0].Tm != nil && args[1].Tm != nil {
			fx.check(st, "panic", "strings.Repeat:count", ts.Ge(args[1].Tm, ts.Int(0)), ce, "strings.Repeat with a negative count panics")
			sl := ts.App("str_len", SInt, args[0].Tm)
			if sl2, ok := e.strLitLen(args[0].Tm); ok {
				sl = ts.Int(int64(sl2))
			}
			st.assume(ts.Eq(ts.App("str_len", SInt, r[0].Tm), ts.Mul(sl, args[1].Tm)))
			e.Assumptions["strings.Repeat(s, n) has length len(s)*n"] = true
		}
		return r
	case "strings.TrimRightFunc", "strings.TrimRight", "strings.TrimSuffix":
		// the result is a prefix of the argument
		if len(args) >= 1 && args[0].Tm != nil && args[0].Tm.Sort == SStr {
			k := ts.Fresh("trim", SInt)
			ln := ts.App("str_len", SInt, args[0].Tm)
			st.assume(ts.And(ts.Le(ts.Int(0), k), ts.Le(k, ln)))
			r := ts.App("str_sub", SStr, args[0].Tm, ts.Int(0), k)
			st.assume(ts.Eq(ts.App("str_len", SInt, r), k))
			e.Assumptions["strings.TrimRight*/TrimSuffix return a prefix of their argument"] = true
			return []*Value{{T: sig.Results().At(0).Type(), Tm: r}}
		}
		return results()
	case "fmt.Sprint", "strings.Join", "strings.TrimSpace", "strings.ToLower":
		r := results()
		return r
	case "unicode/utf8.DecodeRune", "unicode/utf8.DecodeRuneInString":
		// (r, n): n == 0 iff the input is empty, otherwise 1 <= n <= 4 and n <= len(input)
		r := results()
		var ln *Term
		if args[0].Sl != nil {
			ln = args[0].Sl.Len
		} else {
			ln = ts.App("str_len", SInt, args[0].Tm)
		}
		n := r[1].Tm
		st.assume(ts.And(ts.Ge(n, ts.Int(0)), ts.Le(n, ts.Int(4)), ts.Le(n, ln), ts.Eq(ts.Eq(n, ts.Int(0)), ts.Eq(ln, ts.Int(0)))))
		e.Assumptions["utf8.DecodeRune: returns a width n with n == 0 iff the input is empty, else 1 <= n <= min(4, len)"] = true
		return r
	case "(*regexp.Regexp).FindStringSubmatchIndex":
		// nil, or 2k (k >= 1) indices: each pair is (-1,-1) or 0 <= s <= e <= len(input)
		r := results()
		if len(r) == 1 && r[0].Sl != nil {
			sl := r[0].Sl
			ln := ts.App("str_len", SInt, args[0].Tm)
			h := e.heapGet(st, e.elemKey(types.Typ[types.Int]), ArrSort(SInt))
			k := ts.BoundVar("rx", SInt)
			a := ts.Select(h, ts.Add(sl.Ptr, ts.Mul(ts.Int(2), k)))
			b := ts.Select(h, ts.Add(sl.Ptr, ts.Add(ts.Mul(ts.Int(2), k), ts.Int(1))))
			pair := ts.Or(ts.And(ts.Eq(a, ts.Int(-1)), ts.Eq(b, ts.Int(-1))), ts.And(ts.Le(ts.Int(0), a), ts.Le(a, b), ts.Le(b, ln)))
			half := ts.BoundVar("rxh", SInt)
			_ = half
			kk := ts.Fresh("rxk", SInt)
			st.assume(ts.Or(ts.And(ts.Eq(sl.Ptr, ts.Int(0)), ts.Eq(sl.Len, ts.Int(0))),
				ts.And(ts.Ne(sl.Ptr, ts.Int(0)), ts.Ge(kk, ts.Int(1)), ts.Eq(sl.Len, ts.Mul(ts.Int(2), kk)),
					ts.Forall([]*Term{k}, ts.Implies(ts.And(ts.Le(ts.Int(0), k), ts.Lt(k, kk)), pair)))))
			e.Assumptions["regexp.FindStringSubmatchIndex: nil, or 2k indices (k >= 1), each pair (-1,-1) or 0 <= s <= e <= len(input)"] = true
		}
		return r
	case "math.Pow", "math.Floor", "math.Ceil", "math.Round", "math.Abs", "math.Trunc", "math.Sqrt", "math.Mod", "math.Max", "math.Min":
		// pure functions of their arguments: the same arguments give the same result (uninterpreted)
		var ts2 []*Term
		for _, a := range args {
			if a == nil || a.Tm == nil {
				return results()
			}
			ts2 = append(ts2, a.Tm)
		}
		return []*Value{{T: sig.Results().At(0).Type(), Tm: ts.App("fn_"+strings.ReplaceAll(name, ".", "_"), SFlt, ts2...)}}
	case "strings.Split":
		r := results()
		if len(r) == 1 && r[0].Sl != nil {
			st.assume(ts.Ge(r[0].Sl.Len, ts.Int(1)))
			e.Assumptions["strings.Split with a non-empty separator returns at least one element"] = true
			// Split(s, "\n"): the k-th element is line k of s, and there are as many elements as lines
			if tv, ok := e.P.Info.Types[ce.Args[1]]; ok && tv.Value != nil && constantString(tv.Value) == "\n" && args[0].Tm != nil {
				st.assume(ts.Eq(r[0].Sl.Len, ts.App("str_linecount", SInt, args[0].Tm)))
				h := e.heapGet(st, e.elemKey(types.Typ[types.String]), ArrSort(SStr))
				k := ts.BoundVar("ln", SInt)
				st.assume(ts.Forall([]*Term{k}, ts.Implies(ts.And(ts.Le(ts.Int(0), k), ts.Lt(k, r[0].Sl.Len)),
					ts.Eq(ts.Select(h, ts.Add(r[0].Sl.Ptr, k)), ts.App("str_line", SStr, args[0].Tm, k)))))
				e.Assumptions["strings.Split(s, \"\\n\") returns the lines of s in order (str_line / str_linecount are its definition)"] = true
			}
		}
		return r
	case "strconv.FormatInt", "strconv.Itoa":
		r := results()
		st.assume(ts.Ge(ts.App("str_len", SInt, r[0].Tm), ts.Int(1)))
		return r
	case "(*golang.org/x/exp/rand.PCGSource).Uint64":
		fx.check(st, "nil", "src.Uint64", ts.Ne(recv.Tm, ts.Int(0)), ce, "Uint64 on nil source")
		posH := e.heapGet(st, "rng.pos", ArrSort(SInt))
		pos := ts.Select(posH, recv.Tm)
		st.assume(ts.Ge(pos, ts.Int(0)))
		v := &Value{T: sig.Results().At(0).Type(), Tm: ts.App("rng_draw", SInt, recv.Tm, pos)}
		e.assumeType(st, v)
		st.heap["rng.pos"] = ts.Store(posH, recv.Tm, ts.Add(pos, ts.Int(1)))
		e.Assumptions["rand.PCGSource modelled as a stream: Uint64 returns draw(src,pos) in [0,2^64) and advances pos"] = true
		return []*Value{v}
	case "(*golang.org/x/exp/rand.PCGSource).Seed", "(*golang.org/x/exp/rand.PCGSource).UnmarshalBinary":
		fx.check(st, "nil", "src", ts.Ne(recv.Tm, ts.Int(0)), ce, "method on nil source")
		e.havocKey(st, "rng.pos", ArrSort(SInt))
		return results()
	case "(*sync.Mutex).Lock", "(*sync.Mutex).Unlock", "(*sync.RWMutex).Lock", "(*sync.RWMutex).Unlock":
		return nil
	case "encoding/json.Unmarshal":
		// writes through the target pointer
		res := results()
		if len(ce.Args) == 2 {
			var doc *Term
			if args[0] != nil && args[0].Sl != nil {
				doc = ts.App("json_doc", SInt, args[0].Sl.Ptr, args[0].Sl.Len)
			}
			errNil := ts.Eq(res[0].Tm, ts.App("any_nil", SAny))
			fx.havocPointeeWith(st, ce.Args[1], args[1], func(nv *Value, elem types.Type) {
				if doc != nil {
					fx.jsonLeafFacts(st, nv, elem, "", doc, errNil)
				}
			})
			fx.assumeUnmarshaler(st, ce.Args[1], args[1], res[0])
		}
		return res
	case "encoding/json.Marshal":
		res := results()
		if len(res) == 2 && res[0].Sl != nil && len(args) == 1 && args[0] != nil {
			doc := ts.App("json_doc", SInt, res[0].Sl.Ptr, res[0].Sl.Len)
			errNil := ts.Eq(res[1].Tm, ts.App("any_nil", SAny))
			src := args[0]
			srcT := e.P.Info.TypeOf(ce.Args[0])
			// Marshal takes `any`: recover the static type and value of the argument expression
			if pt, ok := srcT.Underlying().(*types.Pointer); ok {
				if _, isStruct := pt.Elem().Underlying().(*types.Struct); isStruct && !e.isOpaqueStruct(pt.Elem()) {
					raw := fx.eval(st, ce.Args[0])
					if raw != nil && raw.Tm != nil && raw.Tm.Sort == SInt {
						src = e.loadCell(st, "", raw.Tm, pt.Elem())
						srcT = pt.Elem()
					}
				}
			} else if _, isStruct := srcT.Underlying().(*types.Struct); isStruct {
				src = fx.eval(st, ce.Args[0])
			}
			if src != nil && src.St != nil {
				fx.jsonLeafFacts(st, src, srcT, "", doc, errNil)
			}
		}
		return res
	}
	// methods with pointer receivers on opaque locals mutate the local handle
	if recvExpr != nil {
		if id, ok := recvExpr.(*ast.Ident); ok {
			if v, ok := e.P.Info.ObjectOf(id).(*types.Var); ok && !fx.isGlobal(v) && e.isOpaqueStruct(v.Type()) {
				if _, wantPtr := sig.Recv().Type().Underlying().(*types.Pointer); wantPtr {
					st.vars[v] = e.havocValue(st, v.Type(), v.Name())
				}
			}
		}
	}
	r := results()
	for _, v := range r {
		fx.onRead(st, v, ce)
	}
	return r
}

func (e *Engine) tagOfName(s string) int {
	if id, ok := e.tags[s]; ok {
		return id
	}
	id := len(e.tags) + 1
	e.tags[s] = id
	e.tagNames[id] = s
	return id
}

// havocPointee forgets the value a pointer argument points to (external writes through it).
func (fx *fctx) havocPointee(st *State, arg ast.Expr, val *Value) {
	fx.havocPointeeWith(st, arg, val, nil)
}

// jsonLeafFacts: the assumed reading of encoding/json.  For every leaf (integer, float, string, or interface holding
// one of them) at tag path π of struct value v:  err == nil ==> leaf == json_<sort>(doc, π).  Marshal and Unmarshal
// get the same facts, so a decoder that reads a leaf with the type the encoder wrote gets the value back.
func (fx *fctx) jsonLeafFacts(st *State, v *Value, t types.Type, prefix string, doc, errNil *Term) {
	e := fx.e
	ts := e.ts
	sty, ok := t.Underlying().(*types.Struct)
	if !ok || v == nil || v.St == nil {
		return
	}
	e.Assumptions["encoding/json document model: at every tag path Unmarshal reads the value Marshal wrote there (integers, finite floats, valid UTF-8 strings); the meaning of a byte buffer depends on the slice identity only (buffers are not mutated between encode and decode)"] = true
	for i := 0; i < sty.NumFields(); i++ {
		f := sty.Field(i)
		tag := reflect.StructTag(sty.Tag(i)).Get("json")
		name := strings.Split(tag, ",")[0]
		if name == "-" {
			continue
		}
		if name == "" {
			name = f.Name()
		}
		path := name
		if prefix != "" {
			path = prefix + "." + name
		}
		fv := v.St[f.Name()]
		if fv == nil {
			continue
		}
		pid := ts.Int(int64(e.tagOfName("jsonpath:" + path)))
		switch u := f.Type().Underlying().(type) {
		case *types.Struct:
			fx.jsonLeafFacts(st, fv, f.Type(), path, doc, errNil)
		case *types.Basic:
			if fv.Tm == nil {
				continue
			}
			switch {
			case u.Info()&types.IsInteger != 0:
				st.assume(ts.Implies(errNil, ts.Eq(fv.Tm, ts.App("json_int", SInt, doc, pid))))
			case u.Info()&types.IsFloat != 0:
				st.assume(ts.Implies(errNil, ts.Eq(fv.Tm, ts.App("json_flt", SFlt, doc, pid))))
			case u.Info()&types.IsString != 0:
				st.assume(ts.Implies(errNil, ts.Eq(fv.Tm, ts.App("json_str", SStr, doc, pid))))
			}
		case *types.Interface:
			if fv.Tm == nil || fv.Tm.Sort != SAny {
				continue
			}
			a := fv.Tm
			st.assume(ts.Implies(ts.And(errNil, ts.App("(_ is any_int)", SBool, a)), ts.Eq(ts.App("any_ival", SInt, a), ts.App("json_int", SInt, doc, pid))))
			st.assume(ts.Implies(ts.And(errNil, ts.App("(_ is any_flt)", SBool, a)), ts.Eq(ts.App("any_fval", SFlt, a), ts.App("json_flt", SFlt, doc, pid))))
			st.assume(ts.Implies(ts.And(errNil, ts.App("(_ is any_str)", SBool, a)), ts.Eq(ts.App("any_sval", SStr, a), ts.App("json_str", SStr, doc, pid))))
		}
	}
}

func (fx *fctx) havocPointeeWith(st *State, arg ast.Expr, val *Value, constrain func(nv *Value, elem types.Type)) {
	e := fx.e
	t := e.P.Info.TypeOf(arg)
	p, ok := t.Underlying().(*types.Pointer)
	if !ok {
		// non-pointer targets (maps, interfaces): nothing modelled
		return
	}
	nv := e.havocValue(st, p.Elem(), "ext")
	addr := val.Tm
	if addr.Sort == SAny {
		// the pointer was passed as an interface value
		addr = e.ts.App("any_raddr", SInt, addr)
	}
	// slices filled by external code are not trusted to satisfy the element discipline of the package
	var mark func(v *Value)
	mark = func(v *Value) {
		if v == nil {
			return
		}
		if v.Sl != nil {
			if fx.madeSlices == nil {
				fx.madeSlices = map[int]bool{}
			}
			fx.madeSlices[v.Sl.Ptr.id] = true
		}
		for _, f := range v.St {
			mark(f)
		}
	}
	mark(nv)
	if constrain != nil {
		constrain(nv, p.Elem())
	}
	e.storeCell(st, "", addr, p.Elem(), nv)
}

// modelSortSlice: assumed contract of sort.Slice for integer slices and the two comparator shapes used in the package.
func (fx *fctx) modelSortSlice(st *State, ce *ast.CallExpr) []*Value {
	e := fx.e
	ts := e.ts
	sv := fx.eval(st, ce.Args[0])
	st0 := e.P.Info.TypeOf(ce.Args[0])
	sl, ok := st0.Underlying().(*types.Slice)
	if !ok {
		e.unsup(ce, "sort.Slice on non-slice")
	}
	dir := 0
	if lit, ok := ce.Args[1].(*ast.FuncLit); ok && len(lit.Body.List) == 1 {
		if ret, ok := lit.Body.List[0].(*ast.ReturnStmt); ok && len(ret.Results) == 1 {
			if be, ok := ret.Results[0].(*ast.BinaryExpr); ok {
				li, lok := be.X.(*ast.IndexExpr)
				ri, rok := be.Y.(*ast.IndexExpr)
				if lok && rok && e.exprStr(li.X) == e.exprStr(ce.Args[0]) && e.exprStr(ri.X) == e.exprStr(ce.Args[0]) {
					pi := lit.Type.Params.List
					var names []string
					for _, f := range pi {
						for _, n := range f.Names {
							names = append(names, n.Name)
						}
					}
					if len(names) == 2 && e.exprStr(li.Index) == names[0] && e.exprStr(ri.Index) == names[1] {
						switch be.Op {
						case token.LSS:
							dir = 1
						case token.GTR:
							dir = -1
						}
					}
				}
			}
		}
	}
	k, s := e.classify(sl.Elem())
	if k != kScalar {
		e.unsup(ce, "sort.Slice on non-scalar elements")
	}
	key := e.elemKey(sl.Elem())
	old := e.heapGet(st, key, ArrSort(s))
	nw := ts.Fresh("H."+key, ArrSort(s))
	p, n := sv.Sl.Ptr, sv.Sl.Len
	a := ts.BoundVar("sa", SInt)
	// frame: cells outside the slice are unchanged
	st.assume(ts.Forall([]*Term{a}, ts.WithPatterns(ts.Implies(ts.Or(ts.Lt(a, p), ts.Ge(a, ts.Add(p, n))), ts.Eq(ts.Select(nw, a), ts.Select(old, a))), []*Term{ts.Select(nw, a)})))
	e.Assumptions["sort.Slice contract (assumed): result is a permutation of the input, ordered by the comparator; consequences used: frame, order, psum/min/max preserved"] = true
	if s == SInt && dir != 0 {
		i := ts.BoundVar("si", SInt)
		j := ts.BoundVar("sj", SInt)
		rng := ts.And(ts.Le(ts.Int(0), i), ts.Le(i, j), ts.Lt(j, n))
		var ord *Term
		if dir > 0 {
			ord = ts.Le(ts.Select(nw, ts.Add(p, i)), ts.Select(nw, ts.Add(p, j)))
		} else {
			ord = ts.Ge(ts.Select(nw, ts.Add(p, i)), ts.Select(nw, ts.Add(p, j)))
		}
		st.assume(ts.Forall([]*Term{i, j}, ts.WithPatterns(ts.Implies(rng, ord), []*Term{ts.Select(nw, ts.Add(p, i)), ts.Select(nw, ts.Add(p, j))})))
		// permutation consequences: every new element is some old element, the sum is unchanged
		k := ts.BoundVar("pk", SInt)
		pidx := ts.App("perm_idx", SInt, e.heapID(nw), e.heapID(old), p, n, k)
		st.assume(ts.Forall([]*Term{k}, ts.WithPatterns(ts.Implies(ts.And(ts.Le(ts.Int(0), k), ts.Lt(k, n)),
			ts.And(ts.Le(ts.Int(0), pidx), ts.Lt(pidx, n), ts.Eq(ts.Select(nw, ts.Add(p, k)), ts.Select(old, ts.Add(p, pidx))))), []*Term{ts.Select(nw, ts.Add(p, k))})))
		st.assume(ts.Eq(e.psumTerm(nw, p, n), e.psumTerm(old, p, n)))
	}
	st.heap[key] = nw
	return nil
}

func isExternalName(name string) bool { return strings.Contains(name, ".") }

func constantString(v constant.Value) string {
	if v.Kind() == constant.String {
		return constant.StringVal(v)
	}
	return ""
}

// assumeUnmarshaler: json.Unmarshal into *T where T has an UnmarshalJSON method under contract in this package
// behaves like that method on the target (its postconditions are assumed for the call's error result).
func (fx *fctx) assumeUnmarshaler(st *State, arg ast.Expr, val *Value, errv *Value) {
	e := fx.e
	t := e.P.Info.TypeOf(arg)
	p, ok := t.Underlying().(*types.Pointer)
	if !ok {
		return
	}
	ms := types.NewMethodSet(t)
	sel := ms.Lookup(e.P.Pkg.Types, "UnmarshalJSON")
	if sel == nil {
		return
	}
	fn, _ := sel.Obj().(*types.Func)
	fi := e.P.FuncByObj[fn]
	if fi == nil {
		return
	}
	con := e.P.CF.Contracts[fi.Key]
	if con == nil {
		return
	}
	addr := val.Tm
	if addr.Sort == SAny {
		addr = e.ts.App("any_raddr", SInt, addr)
	}
	sig := fn.Type().(*types.Signature)
	bind := map[string]*Value{"result": errv, "result0": errv}
	if sig.Recv() != nil && sig.Recv().Name() != "" {
		bind[sig.Recv().Name()] = &Value{T: t, Tm: addr}
	}
	pre := st.clone()
	for _, cl := range con.Ensures {
		st.assume(fx.evalClause(st, pre, cl, bind))
	}
	_ = p
	e.Assumptions["encoding/json.Unmarshal into a type with UnmarshalJSON behaves like that method (its contract is assumed for the target)"] = true
}
