package vc

import (
	"go/ast"
	"go/token"
	"go/types"
	"sort"
	"strings"
)

// EffectInfo is the result of the syntactic frame/effect pass over the typed call graph.
type EffectInfo struct {
	Local map[*types.Func]*FuncEffects // direct effects
	Trans map[*types.Func]*FuncEffects // transitive closure over static calls
	// GlobalWritten: package-level variables assigned anywhere outside their own declaration/initialiser functions.
	GlobalWritten map[*types.Var]bool
	InitFuncs     map[*types.Func]bool // functions that run only during package initialisation
	AddressTaken  map[*types.Func]string
}

type FuncEffects struct {
	Writes       map[string]bool       // heap keys possibly written ("S.f", "S.*", "elem.T", "global.pkg.x")
	Top          bool                  // may write anything (unknown callee)
	TopWhy       []string              // why
	GlobalsRead  map[*types.Var]string // package-level vars read -> position
	GlobalsWrite map[*types.Var]string
	Callees      map[*types.Func]string
	ExtCalls     map[string]string // external functions called -> position
	DynCalls     []string          // calls through function values / interfaces (description@pos)
	MapRanges    []string          // range over Go maps (positions)
	Allocates    bool
	ParamCalls   map[int]bool           // calls through function-typed parameters (by parameter index)
	FuncValues   map[*types.Func]string // package functions used as values (not called) -> position
}

func newFE() *FuncEffects {
	return &FuncEffects{Writes: map[string]bool{}, GlobalsRead: map[*types.Var]string{}, GlobalsWrite: map[*types.Var]string{}, Callees: map[*types.Func]string{}, ExtCalls: map[string]string{}, ParamCalls: map[int]bool{}, FuncValues: map[*types.Func]string{}}
}

func (e *Engine) isPkgGlobal(v *types.Var) bool {
	if v == nil || v.Pkg() == nil {
		return false
	}
	return v.Parent() == v.Pkg().Scope()
}

// ComputeEffects runs the pass for every function declared in the package.
func (e *Engine) ComputeEffects() *EffectInfo {
	info := e.P.Info
	ei := &EffectInfo{Local: map[*types.Func]*FuncEffects{}, Trans: map[*types.Func]*FuncEffects{}, GlobalWritten: map[*types.Var]bool{}, InitFuncs: map[*types.Func]bool{}}
	// functions used only from package-level initialisers (var _ = _init()) or named init
	initCalled := map[*types.Func]bool{}
	for _, f := range e.P.Pkg.Syntax {
		for _, d := range f.Decls {
			gd, ok := d.(*ast.GenDecl)
			if !ok || gd.Tok != token.VAR {
				continue
			}
			for _, sp := range gd.Specs {
				for _, val := range sp.(*ast.ValueSpec).Values {
					ast.Inspect(val, func(n ast.Node) bool {
						if ce, ok := n.(*ast.CallExpr); ok {
							if id, ok := ce.Fun.(*ast.Ident); ok {
								if fn, ok := info.Uses[id].(*types.Func); ok && fn.Pkg() == e.P.Pkg.Types {
									initCalled[fn] = true
								}
							}
						}
						return true
					})
				}
			}
		}
	}
	for _, fi := range e.P.Funcs {
		if fi.Obj == nil {
			continue
		}
		if fi.Decl.Name.Name == "init" && fi.Decl.Recv == nil {
			ei.InitFuncs[fi.Obj] = true
		}
	}
	// a function is init-only if it is called from initialisers and from nowhere else
	calledElsewhere := map[*types.Func]bool{}
	for _, fi := range e.P.Funcs {
		if fi.Obj == nil {
			continue
		}
		fe := e.localEffects(fi)
		ei.Local[fi.Obj] = fe
		for c := range fe.Callees {
			calledElsewhere[c] = true
		}
	}
	for fn := range initCalled {
		if !calledElsewhere[fn] {
			ei.InitFuncs[fn] = true
		}
	}
	for fn, fe := range ei.Local {
		if ei.InitFuncs[fn] {
			continue
		}
		for v := range fe.GlobalsWrite {
			ei.GlobalWritten[v] = true
		}
	}
	// functions used as values (stored in tables, assigned to fields): they can be called from anywhere a
	// function value is called, so they count as roots of the reachability analyses
	ei.AddressTaken = map[*types.Func]string{}
	for _, f := range e.P.Pkg.Syntax {
		var stack []ast.Node
		ast.Inspect(f, func(n ast.Node) bool {
			if n == nil {
				stack = stack[:len(stack)-1]
				return true
			}
			stack = append(stack, n)
			var id *ast.Ident
			switch x := n.(type) {
			case *ast.Ident:
				id = x
			default:
				return true
			}
			fn, ok := info.Uses[id].(*types.Func)
			if !ok || fn.Pkg() != e.P.Pkg.Types {
				return true
			}
			// is this identifier the callee of a call?
			if len(stack) >= 2 {
				par := stack[len(stack)-2]
				if ce, ok := par.(*ast.CallExpr); ok && ce.Fun == n {
					return true
				}
				if se, ok := par.(*ast.SelectorExpr); ok && se.Sel == id && len(stack) >= 3 {
					if ce, ok := stack[len(stack)-3].(*ast.CallExpr); ok && ce.Fun == par {
						return true
					}
				}
			}
			if _, ok := ei.AddressTaken[fn]; !ok {
				ei.AddressTaken[fn] = e.posStr(id.Pos())
			}
			return true
		})
	}
	// callbacks passed as parameters must be literals or forwarded parameters at every in-package call site
	for _, fi := range e.P.Funcs {
		if fi.Obj == nil {
			continue
		}
		csig, _ := fi.Obj.Type().(*types.Signature)
		ast.Inspect(fi.Decl.Body, func(n ast.Node) bool {
			ce, ok := n.(*ast.CallExpr)
			if !ok {
				return true
			}
			var callee *types.Func
			switch f := ce.Fun.(type) {
			case *ast.Ident:
				callee, _ = info.Uses[f].(*types.Func)
			case *ast.SelectorExpr:
				callee, _ = info.Uses[f.Sel].(*types.Func)
			}
			if callee == nil {
				return true
			}
			ce2 := ei.Local[callee]
			if ce2 == nil || len(ce2.ParamCalls) == 0 {
				return true
			}
			for i := range ce2.ParamCalls {
				if i >= len(ce.Args) {
					continue
				}
				switch a := ce.Args[i].(type) {
				case *ast.FuncLit:
					continue
				case *ast.Ident:
					if v, ok := info.Uses[a].(*types.Var); ok && csig != nil {
						fwd := false
						for j := 0; j < csig.Params().Len(); j++ {
							if csig.Params().At(j) == v {
								fwd = true
							}
						}
						if fwd {
							// the caller forwards its own callback parameter
							ei.Local[fi.Obj].ParamCalls[paramIndex(csig, v)] = true
							continue
						}
					}
				}
				ce2.Top = true
				ce2.TopWhy = append(ce2.TopWhy, "callback argument at "+e.posStr(ce.Pos())+" is neither a literal nor a forwarded parameter")
			}
			return true
		})
	}
	// transitive closure (simple fixpoint)
	for fn, fe := range ei.Local {
		t := newFE()
		t.merge(fe)
		ei.Trans[fn] = t
	}
	changed := true
	for changed {
		changed = false
		for fn, t := range ei.Trans {
			for c := range ei.Local[fn].Callees {
				ct := ei.Trans[c]
				if ct == nil {
					continue
				}
				if t.merge(ct) {
					changed = true
				}
			}
		}
	}
	return ei
}

func (a *FuncEffects) merge(b *FuncEffects) bool {
	ch := false
	for k := range b.Writes {
		if !a.Writes[k] {
			a.Writes[k] = true
			ch = true
		}
	}
	if b.Top && !a.Top {
		a.Top = true
		ch = true
	}
	for _, w := range b.TopWhy {
		found := false
		for _, x := range a.TopWhy {
			if x == w {
				found = true
			}
		}
		if !found && len(a.TopWhy) < 8 {
			a.TopWhy = append(a.TopWhy, w)
			ch = true
		}
	}
	for k, p := range b.GlobalsRead {
		if _, ok := a.GlobalsRead[k]; !ok {
			a.GlobalsRead[k] = p
			ch = true
		}
	}
	for k, p := range b.GlobalsWrite {
		if _, ok := a.GlobalsWrite[k]; !ok {
			a.GlobalsWrite[k] = p
			ch = true
		}
	}
	for k, p := range b.ExtCalls {
		if _, ok := a.ExtCalls[k]; !ok {
			a.ExtCalls[k] = p
			ch = true
		}
	}
	for _, d := range b.DynCalls {
		found := false
		for _, x := range a.DynCalls {
			if x == d {
				found = true
			}
		}
		if !found {
			a.DynCalls = append(a.DynCalls, d)
			ch = true
		}
	}
	for _, d := range b.MapRanges {
		found := false
		for _, x := range a.MapRanges {
			if x == d {
				found = true
			}
		}
		if !found {
			a.MapRanges = append(a.MapRanges, d)
			ch = true
		}
	}
	if b.Allocates && !a.Allocates {
		a.Allocates = true
		ch = true
	}
	return ch
}

// writeKeysForType: keys written when a whole value of type t stored in cell `key` is assigned.
func (e *Engine) writeKeys(key string, t types.Type) []string {
	k, _ := e.classify(t)
	switch k {
	case kStruct:
		return []string{e.structName(t) + ".*"}
	default:
		if key == "" {
			key = e.elemKey(t)
		}
		return []string{key}
	}
}

func (e *Engine) localEffects(fi *FuncInfo) *FuncEffects { return e.localEffectsOwner(fi, fi) }

// localEffectsOwner scans fi's body; closures are resolved against owner's body.
func (e *Engine) localEffectsOwner(fi *FuncInfo, owner *FuncInfo) *FuncEffects {
	info := e.P.Info
	fe := newFE()
	var lvalKeys func(x ast.Expr)
	noteGlobalRead := func(id *ast.Ident) {
		if v, ok := info.Uses[id].(*types.Var); ok && e.isPkgGlobal(v) {
			if _, ok := fe.GlobalsRead[v]; !ok {
				fe.GlobalsRead[v] = e.posStr(id.Pos())
			}
		}
	}
	lvalKeys = func(x ast.Expr) {
		switch x := x.(type) {
		case *ast.ParenExpr:
			lvalKeys(x.X)
		case *ast.Ident:
			if v, ok := info.ObjectOf(x).(*types.Var); ok && e.isPkgGlobal(v) {
				fe.GlobalsWrite[v] = e.posStr(x.Pos())
				fe.Writes["global."+globalName(v)] = true
			}
			// locals: if boxed they live in elem.T; conservative: add elem key when address is taken anywhere (cheap over-approximation)
			if v, ok := info.ObjectOf(x).(*types.Var); ok && !e.isPkgGlobal(v) {
				for _, k := range e.writeKeys("", v.Type()) {
					_ = k
				}
			}
		case *ast.SelectorExpr:
			sel := info.Selections[x]
			if sel == nil {
				if v, ok := info.ObjectOf(x.Sel).(*types.Var); ok && e.isPkgGlobal(v) {
					fe.GlobalsWrite[v] = e.posStr(x.Pos())
					fe.Writes["global."+globalName(v)] = true
				}
				return
			}
			// owner struct of the final field
			rt := info.TypeOf(x.X)
			cur := rt
			if p, ok := cur.Underlying().(*types.Pointer); ok {
				cur = p.Elem()
			}
			var key string
			var ft types.Type
			for _, i := range sel.Index() {
				if p, ok := cur.Underlying().(*types.Pointer); ok {
					cur = p.Elem()
				}
				sty := structOf(cur)
				if sty == nil {
					return
				}
				f := sty.Field(i)
				key = e.structName(cur) + "." + f.Name()
				ft = f.Type()
				cur = ft
			}
			// is the base a local struct value (no heap)?
			if _, isPtr := rt.Underlying().(*types.Pointer); !isPtr {
				if root := rootIdent(x.X); root != nil {
					if v, ok := info.ObjectOf(root).(*types.Var); ok && !e.isPkgGlobal(v) && !throughPointer(info, x.X) {
						// write into a local struct variable; still record (harmless over-approximation)
					}
				}
				// a field of a package-level struct variable
				if id, ok := x.X.(*ast.Ident); ok {
					lvalKeys(id)
				}
			}
			for _, k := range e.writeKeys(key, ft) {
				fe.Writes[k] = true
			}
		case *ast.IndexExpr:
			bt := info.TypeOf(x.X)
			switch u := bt.Underlying().(type) {
			case *types.Slice:
				for _, k := range e.writeKeys("", u.Elem()) {
					fe.Writes[k] = true
				}
			case *types.Array:
				lvalKeys(x.X)
			case *types.Map:
				fe.Writes["map."+e.typeStr(bt)] = true
			}
		case *ast.StarExpr:
			pt := info.TypeOf(x.X)
			if p, ok := pt.Underlying().(*types.Pointer); ok {
				for _, k := range e.writeKeys("", p.Elem()) {
					fe.Writes[k] = true
				}
			}
		}
	}
	lhsIdents := map[*ast.Ident]bool{}
	ast.Inspect(fi.Decl.Body, func(n ast.Node) bool {
		if as, ok := n.(*ast.AssignStmt); ok && as.Tok == token.ASSIGN {
			for _, l := range as.Lhs {
				if id, ok := l.(*ast.Ident); ok {
					lhsIdents[id] = true
				}
			}
		}
		return true
	})
	ast.Inspect(fi.Decl.Body, func(n ast.Node) bool {
		switch n := n.(type) {
		case *ast.AssignStmt:
			for _, l := range n.Lhs {
				if n.Tok == token.DEFINE {
					if id, ok := l.(*ast.Ident); ok {
						if _, isDef := info.Defs[id]; isDef && info.Defs[id] != nil {
							continue
						}
					}
				}
				lvalKeys(l)
			}
		case *ast.IncDecStmt:
			lvalKeys(n.X)
		case *ast.RangeStmt:
			if n.Tok == token.ASSIGN {
				if n.Key != nil {
					lvalKeys(n.Key)
				}
				if n.Value != nil {
					lvalKeys(n.Value)
				}
			}
			if t := info.TypeOf(n.X); t != nil {
				if _, ok := t.Underlying().(*types.Map); ok {
					fe.MapRanges = append(fe.MapRanges, e.posStr(n.Pos()))
				}
			}
		case *ast.Ident:
			if !lhsIdents[n] {
				noteGlobalRead(n)
			}
		case *ast.CompositeLit, *ast.FuncLit:
			fe.Allocates = true
		case *ast.UnaryExpr:
			if n.Op == token.AND {
				fe.Allocates = true
			}
		case *ast.CallExpr:
			e.callEffects(owner, fe, n)
			e.syncEffects(n, lvalKeys)
		}
		return true
	})
	return fe
}

func rootIdent(x ast.Expr) *ast.Ident {
	for {
		switch y := x.(type) {
		case *ast.Ident:
			return y
		case *ast.SelectorExpr:
			x = y.X
		case *ast.IndexExpr:
			x = y.X
		case *ast.ParenExpr:
			x = y.X
		case *ast.StarExpr:
			x = y.X
		default:
			return nil
		}
	}
}

func throughPointer(info *types.Info, x ast.Expr) bool {
	for {
		if t := info.TypeOf(x); t != nil {
			if _, ok := t.Underlying().(*types.Pointer); ok {
				return true
			}
		}
		switch y := x.(type) {
		case *ast.SelectorExpr:
			x = y.X
		case *ast.ParenExpr:
			x = y.X
		case *ast.IndexExpr:
			return true
		default:
			return false
		}
	}
}

func (e *Engine) callEffects(fi *FuncInfo, fe *FuncEffects, ce *ast.CallExpr) {
	info := e.P.Info
	if tv, ok := info.Types[ce.Fun]; ok && tv.IsType() {
		return
	}
	pos := e.posStr(ce.Pos())
	var fn *types.Func
	switch f := ce.Fun.(type) {
	case *ast.Ident:
		switch o := info.Uses[f].(type) {
		case *types.Builtin:
			switch o.Name() {
			case "append":
				if t := info.TypeOf(ce.Args[0]); t != nil {
					if s, ok := t.Underlying().(*types.Slice); ok {
						for _, k := range e.writeKeys("", s.Elem()) {
							fe.Writes[k] = true
						}
					}
				}
				fe.Allocates = true
			case "copy":
				if t := info.TypeOf(ce.Args[0]); t != nil {
					if s, ok := t.Underlying().(*types.Slice); ok {
						for _, k := range e.writeKeys("", s.Elem()) {
							fe.Writes[k] = true
						}
					}
				}
			case "make", "new":
				fe.Allocates = true
			case "delete":
				if t := info.TypeOf(ce.Args[0]); t != nil {
					fe.Writes["map."+e.typeStr(t)] = true
				}
			}
			return
		case *types.Func:
			fn = o
		case *types.Var:
			// call through a function-typed variable: closure bound once (inlined) or dynamic
			if !e.isPkgGlobal(o) && e.isLocalClosure(fi, o) {
				return // body is scanned in place (ast.Inspect descends into the FuncLit)
			}
			// call through a function-typed parameter: the argument's effects are accounted at the call sites
			// (checked by ComputeEffects: every in-package call site passes a literal or forwards its own parameter)
			if fi.Obj != nil {
				sig := fi.Obj.Type().(*types.Signature)
				for i := 0; i < sig.Params().Len(); i++ {
					if sig.Params().At(i) == o {
						fe.ParamCalls[i] = true
						fe.DynCalls = append(fe.DynCalls, "param-callback "+f.Name+"@"+pos)
						return
					}
				}
			}
			fe.DynCalls = append(fe.DynCalls, "func value "+f.Name+"@"+pos)
			fe.Top = true
			fe.TopWhy = append(fe.TopWhy, "call through function value "+f.Name+" at "+pos)
			return
		}
	case *ast.SelectorExpr:
		if sel := info.Selections[f]; sel != nil {
			switch sel.Kind() {
			case types.MethodVal:
				fn, _ = sel.Obj().(*types.Func)
				if fn != nil {
					if _, isI := sel.Recv().Underlying().(*types.Interface); isI {
						fe.DynCalls = append(fe.DynCalls, "interface method "+fn.Name()+"@"+pos)
						if !pureIfaceMethod(fn.Name()) {
							fe.Top = true
							fe.TopWhy = append(fe.TopWhy, "interface method "+fn.Name()+" at "+pos)
						}
						return
					}
				}
			case types.FieldVal:
				fe.DynCalls = append(fe.DynCalls, "function-typed field "+f.Sel.Name+"@"+pos)
				fe.Top = true
				fe.TopWhy = append(fe.TopWhy, "call through function-typed field "+f.Sel.Name+" at "+pos)
				return
			}
		} else {
			fn, _ = info.Uses[f.Sel].(*types.Func)
		}
	case *ast.FuncLit:
		return
	default:
		fe.DynCalls = append(fe.DynCalls, "computed callee@"+pos)
		fe.Top = true
		fe.TopWhy = append(fe.TopWhy, "computed callee at "+pos)
		return
	}
	if fn == nil {
		fe.DynCalls = append(fe.DynCalls, "unresolved callee@"+pos)
		fe.Top = true
		fe.TopWhy = append(fe.TopWhy, "unresolved callee at "+pos)
		return
	}
	if fn.Pkg() == e.P.Pkg.Types {
		if _, ok := fe.Callees[fn]; !ok {
			fe.Callees[fn] = pos
		}
		return
	}
	name := fn.FullName()
	if _, ok := fe.ExtCalls[name]; !ok {
		fe.ExtCalls[name] = pos
	}
	// externals that write through their arguments
	switch name {
	case "sort.Slice", "sort.Sort", "sort.Strings", "sort.Ints":
		if len(ce.Args) > 0 {
			if t := info.TypeOf(ce.Args[0]); t != nil {
				if s, ok := t.Underlying().(*types.Slice); ok {
					for _, k := range e.writeKeys("", s.Elem()) {
						fe.Writes[k] = true
					}
				}
			}
		}
	case "(*golang.org/x/exp/rand.PCGSource).Uint64", "(*golang.org/x/exp/rand.PCGSource).Seed", "(*golang.org/x/exp/rand.PCGSource).UnmarshalBinary":
		fe.Writes["rng.pos"] = true
	case "encoding/json.Unmarshal":
		// calls UnmarshalJSON methods of the target's type graph
		fe.Writes["VMValue.*"] = true
		fe.Writes["ValueMap.*"] = true
		fe.Writes["json-target"] = true
		fe.Allocates = true
	}
}

// syncEffects: writes performed by the modelled sync/atomic primitives (see syncmodel.go).
func (e *Engine) syncEffects(ce *ast.CallExpr, lvalKeys func(ast.Expr)) {
	info := e.P.Info
	se, ok := ce.Fun.(*ast.SelectorExpr)
	if !ok {
		return
	}
	var fn *types.Func
	if sel := info.Selections[se]; sel != nil {
		fn, _ = sel.Obj().(*types.Func)
	} else {
		fn, _ = info.Uses[se.Sel].(*types.Func)
	}
	if fn == nil || fn.Pkg() == nil || fn.Pkg().Path() != "sync/atomic" {
		return
	}
	switch fn.FullName() {
	case "(*sync/atomic.Value).Store":
		lvalKeys(se.X)
	case "sync/atomic.StorePointer", "sync/atomic.CompareAndSwapPointer":
		if len(ce.Args) > 0 {
			x := ce.Args[0]
			for {
				if p, ok := x.(*ast.ParenExpr); ok {
					x = p.X
					continue
				}
				break
			}
			if u, ok := x.(*ast.UnaryExpr); ok && u.Op == token.AND {
				lvalKeys(u.X)
			}
		}
	}
}

func paramIndex(sig *types.Signature, v *types.Var) int {
	for j := 0; j < sig.Params().Len(); j++ {
		if sig.Params().At(j) == v {
			return j
		}
	}
	return -1
}

func pureIfaceMethod(name string) bool {
	return name == "Error" || name == "String" || name == "Len" || name == "Less"
}

// isLocalClosure: v is a local variable assigned exactly once from a function literal.
func (e *Engine) isLocalClosure(fi *FuncInfo, v *types.Var) bool {
	info := e.P.Info
	n := 0
	lit := false
	ast.Inspect(fi.Decl.Body, func(nd ast.Node) bool {
		as, ok := nd.(*ast.AssignStmt)
		if !ok {
			return true
		}
		for i, l := range as.Lhs {
			id, ok := l.(*ast.Ident)
			if !ok {
				continue
			}
			if info.ObjectOf(id) == v {
				n++
				if i < len(as.Rhs) {
					if _, ok := as.Rhs[i].(*ast.FuncLit); ok {
						lit = true
					}
				}
			}
		}
		return true
	})
	return n == 1 && lit
}

// matchKey reports whether heap key k is covered by write-set entry w.
func matchKey(k, w string) bool {
	if w == "*" {
		return true
	}
	k = baseKey(k)
	if k == w || strings.HasPrefix(k, w+"#") {
		return true
	}
	if strings.HasSuffix(w, ".*") && strings.HasPrefix(k, w[:len(w)-1]) {
		return true
	}
	return false
}

func keysList(m map[string]bool) []string {
	var out []string
	for k := range m {
		out = append(out, k)
	}
	sort.Strings(out)
	return out
}
