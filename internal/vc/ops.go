package vc

import (
	"go/ast"
	"go/token"
	"go/types"
)

func (fx *fctx) evalBinary(st *State, x *ast.BinaryExpr) *Value {
	e := fx.e
	ts := e.ts
	t := e.P.Info.TypeOf(x)
	switch x.Op {
	case token.LAND, token.LOR:
		l := fx.evalBool(st, x.X)
		if !fx.spec && hasCall(x.Y) {
			// the right operand may have effects: fork
			s1 := st.clone()
			if x.Op == token.LAND {
				s1.branch(l)
			} else {
				s1.branch(ts.Not(l))
			}
			r := fx.evalBool(s1, x.Y)
			s2 := st.clone()
			if x.Op == token.LAND {
				s2.branch(ts.Not(l))
			} else {
				s2.branch(l)
			}
			m := e.merge([]*State{s1, s2})
			*st = *m
			if x.Op == token.LAND {
				return &Value{T: t, Tm: ts.And(l, r)}
			}
			return &Value{T: t, Tm: ts.Or(l, r)}
		}
		// evaluate the right operand under the guard (for its panic checks only)
		n := len(st.pc)
		if x.Op == token.LAND {
			st.pc = append(st.pc, l)
		} else {
			st.pc = append(st.pc, ts.Not(l))
		}
		guard := st.pc[n]
		r := fx.evalBool(st, x.Y)
		// facts learned while evaluating the right operand hold only under the guard
		extra := append([]*Term{}, st.pc[n+1:]...)
		st.pc = st.pc[:n]
		for _, f := range extra {
			st.pc = append(st.pc, ts.Implies(guard, f))
		}
		if x.Op == token.LAND {
			return &Value{T: t, Tm: ts.And(l, r)}
		}
		return &Value{T: t, Tm: ts.Or(l, r)}
	}
	lv := fx.eval(st, x.X)
	rv := fx.eval(st, x.Y)
	return fx.binop(st, x.Op, lv, rv, t, x)
}

func hasCall(x ast.Expr) bool {
	found := false
	ast.Inspect(x, func(n ast.Node) bool {
		if ce, ok := n.(*ast.CallExpr); ok {
			// conversions and len/cap are harmless
			if id, ok := ce.Fun.(*ast.Ident); ok && (id.Name == "len" || id.Name == "cap" || id.Name == "IntType" || id.Name == "int" || id.Name == "int64" || id.Name == "float64" || id.Name == "uint64") {
				return true
			}
			found = true
		}
		return !found
	})
	return found
}

func (fx *fctx) binop(st *State, op token.Token, lv, rv *Value, t types.Type, n ast.Node) *Value {
	e := fx.e
	ts := e.ts
	// comparisons
	switch op {
	case token.EQL, token.NEQ:
		eq := fx.valuesEqual(st, lv, rv, n)
		if op == token.NEQ {
			eq = ts.Not(eq)
		}
		return &Value{T: t, Tm: eq}
	case token.LSS, token.LEQ, token.GTR, token.GEQ:
		if lv.Tm == nil || rv.Tm == nil {
			e.unsup(n, "comparison of non-scalars")
		}
		switch lv.Tm.Sort {
		case SInt:
			var r *Term
			switch op {
			case token.LSS:
				r = ts.Lt(lv.Tm, rv.Tm)
			case token.LEQ:
				r = ts.Le(lv.Tm, rv.Tm)
			case token.GTR:
				r = ts.Gt(lv.Tm, rv.Tm)
			case token.GEQ:
				r = ts.Ge(lv.Tm, rv.Tm)
			}
			return &Value{T: t, Tm: r}
		case SFlt:
			return &Value{T: t, Tm: ts.App("flt_"+map[token.Token]string{token.LSS: "lt", token.LEQ: "le", token.GTR: "gt", token.GEQ: "ge"}[op], SBool, lv.Tm, rv.Tm)}
		case SStr:
			return &Value{T: t, Tm: ts.App("str_"+map[token.Token]string{token.LSS: "lt", token.LEQ: "le", token.GTR: "gt", token.GEQ: "ge"}[op], SBool, lv.Tm, rv.Tm)}
		}
		e.unsup(n, "ordered comparison on sort %s", lv.Tm.Sort)
	}
	if lv.Tm == nil || rv.Tm == nil {
		e.unsup(n, "arithmetic on non-scalars")
	}
	switch lv.Tm.Sort {
	case SStr:
		if op == token.ADD {
			r := ts.App("str_cat", SStr, lv.Tm, rv.Tm)
			st.assume(ts.Eq(ts.App("str_len", SInt, r), ts.Add(ts.App("str_len", SInt, lv.Tm), ts.App("str_len", SInt, rv.Tm))))
			return &Value{T: t, Tm: r}
		}
	case SFlt:
		name := map[token.Token]string{token.ADD: "flt_add", token.SUB: "flt_sub", token.MUL: "flt_mul", token.QUO: "flt_div"}[op]
		if name != "" {
			return &Value{T: t, Tm: ts.App(name, SFlt, lv.Tm, rv.Tm)}
		}
	case SInt:
		a, b := lv.Tm, rv.Tm
		switch op {
		case token.ADD:
			return &Value{T: t, Tm: fx.wrap(ts.Add(a, b), t)}
		case token.SUB:
			return &Value{T: t, Tm: fx.wrap(ts.Sub(a, b), t)}
		case token.MUL:
			return &Value{T: t, Tm: fx.wrap(ts.Mul(a, b), t)}
		case token.QUO, token.REM:
			fx.check(st, "div0", "", ts.Ne(b, ts.Int(0)), n, "integer division by zero")
			if isUnsigned(t) || fx.spec && false {
				if op == token.QUO {
					return &Value{T: t, Tm: ts.App("div", SInt, a, b)}
				}
				return &Value{T: t, Tm: ts.App("mod", SInt, a, b)}
			}
			if op == token.QUO {
				return &Value{T: t, Tm: fx.wrap(ts.App("go_div", SInt, a, b), t)}
			}
			return &Value{T: t, Tm: ts.App("go_mod", SInt, a, b)}
		case token.AND, token.OR, token.XOR, token.AND_NOT:
			name := map[token.Token]string{token.AND: "bit_and", token.OR: "bit_or", token.XOR: "bit_xor", token.AND_NOT: "bit_andnot"}[op]
			r := ts.App(name, SInt, a, b)
			v := &Value{T: t, Tm: r}
			e.assumeType(st, v)
			fx.bitFacts(st, op, a, b, r, t)
			return v
		case token.SHL, token.SHR:
			// shifts by a constant amount are arithmetic
			if b.Int != nil && b.Int.IsInt64() && b.Int.Int64() >= 0 && b.Int.Int64() < 64 {
				p := ts.IntBig(pow2(uint(b.Int.Int64())))
				if op == token.SHL {
					return &Value{T: t, Tm: fx.wrap(ts.Mul(a, p), t)}
				}
				// arithmetic shift right == floor division
				return &Value{T: t, Tm: ts.App("div", SInt, a, p)}
			}
			r := ts.App(map[token.Token]string{token.SHL: "bit_shl", token.SHR: "bit_shr"}[op], SInt, a, b)
			v := &Value{T: t, Tm: r}
			e.assumeType(st, v)
			return v
		}
	}
	e.unsup(n, "binary operator %s on sort %s", op, lv.Tm.Sort)
	return nil
}

// bitFacts adds the (separately proved, see lemmas bv_*) facts about bit operations on non-negative operands.
func (fx *fctx) bitFacts(st *State, op token.Token, a, b, r *Term, t types.Type) {
	ts := fx.e.ts
	zero := ts.Int(0)
	nn := ts.And(ts.Ge(a, zero), ts.Ge(b, zero))
	switch op {
	case token.AND:
		// lemma bv_and_bounds: 0 <= a&b <= a, a&b <= b  (a,b >= 0)
		st.assume(ts.Implies(nn, ts.And(ts.Ge(r, zero), ts.Le(r, a), ts.Le(r, b))))
		// lemma bv_pow2_mask: b+1 is a power of two (witnessed by (b+1)&b == 0) ==> a & b == a mod (b+1)
		// instantiated for the shape x & (n-1) guarded by n&(n-1)==0
		if lo, hi, ok := intRange(t); ok && lo.Sign() == 0 {
			_ = hi
			n := ts.Add(b, ts.Int(1))
			guard := ts.And(ts.Eq(ts.App("bit_and", SInt, n, b), zero), ts.Gt(n, zero), ts.Ge(a, zero), ts.Ge(b, zero))
			st.assume(ts.Implies(guard, ts.Eq(r, ts.App("mod", SInt, a, n))))
			fx.e.Assumptions["bit lemma bv_pow2_mask (proved in QF_BV each run): n&(n-1)==0 && n>0 ==> v&(n-1) == v mod n"] = true
		}
		fx.e.Assumptions["bit lemma bv_and_bounds (proved in QF_BV each run): a,b>=0 ==> 0 <= a&b <= min(a,b)"] = true
	case token.OR:
		st.assume(ts.Implies(nn, ts.And(ts.Ge(r, a), ts.Ge(r, b), ts.Le(r, ts.Add(a, b)))))
		fx.e.Assumptions["bit lemma bv_or_bounds (proved in QF_BV each run): a,b>=0 ==> max(a,b) <= a|b <= a+b"] = true
	}
}

func (fx *fctx) valuesEqual(st *State, lv, rv *Value, n ast.Node) *Term {
	e := fx.e
	ts := e.ts
	// nil comparisons
	if lv.T == nil && rv.T == nil {
		return ts.True()
	}
	if lv.T == nil {
		lv, rv = rv, lv
	}
	if rv.T == nil {
		switch {
		case lv.Sl != nil:
			return ts.Eq(lv.Sl.Ptr, ts.Int(0))
		case lv.Cl != nil:
			return ts.False()
		case lv.Tm != nil && lv.Tm.Sort == SAny:
			return ts.Eq(lv.Tm, ts.App("any_nil", SAny))
		case lv.Tm != nil && lv.Tm.Sort == SInt:
			return ts.Eq(lv.Tm, ts.Int(0))
		}
		e.unsup(n, "nil comparison")
	}
	// interface vs concrete: box the concrete side
	if lv.Tm != nil && lv.Tm.Sort == SAny && !(rv.Tm != nil && rv.Tm.Sort == SAny) {
		rv = e.box(st, rv, lv.T)
	} else if rv.Tm != nil && rv.Tm.Sort == SAny && !(lv.Tm != nil && lv.Tm.Sort == SAny) {
		lv = e.box(st, lv, rv.T)
	}
	switch {
	case lv.Tm != nil && rv.Tm != nil:
		if lv.Tm.Sort == SFlt {
			return ts.App("flt_eq", SBool, lv.Tm, rv.Tm)
		}
		return ts.Eq(lv.Tm, rv.Tm)
	case lv.St != nil && rv.St != nil:
		var cs []*Term
		for _, f := range sortedKeys(lv.St) {
			cs = append(cs, fx.valuesEqual(st, lv.St[f], rv.St[f], n))
		}
		return ts.And(cs...)
	}
	e.unsup(n, "equality on this kind of value")
	return nil
}

// convert implements T(x).
func (fx *fctx) convert(st *State, v *Value, to types.Type, n ast.Node) *Value {
	e := fx.e
	ts := e.ts
	if v.T == nil {
		return e.zeroValue(to)
	}
	kf, sf := e.classify(v.T)
	kt, st2 := e.classify(to)
	switch {
	case kf == kScalar && kt == kScalar && sf == SInt && st2 == SInt:
		return &Value{T: to, Tm: fx.wrap(v.Tm, to)}
	case kf == kScalar && kt == kScalar && sf == SInt && st2 == SFlt:
		return &Value{T: to, Tm: ts.App("flt_of_int", SFlt, v.Tm)}
	case kf == kScalar && kt == kScalar && sf == SFlt && st2 == SInt:
		r := &Value{T: to, Tm: ts.App("int_of_flt", SInt, v.Tm)}
		e.assumeType(st, r)
		return r
	case kf == kScalar && kt == kScalar && sf == st2:
		return &Value{T: to, Tm: v.Tm}
	case kt == kScalar && st2 == SAny:
		return fx.convertForAssign(st, v, to)
	case kf == kScalar && sf == SStr && kt == kSlice:
		// []byte(s) / []rune(s): fresh slice
		el := to.Underlying().(*types.Slice).Elem()
		ln := ts.App("str_len", SInt, v.Tm)
		var n2 *Term
		if b, ok := el.Underlying().(*types.Basic); ok && b.Kind() == types.Uint8 {
			n2 = ln
		} else {
			n2 = ts.App("str_runecount", SInt, v.Tm)
			st.assume(ts.And(ts.Le(ts.Int(0), n2), ts.Le(n2, ln), ts.Implies(ts.Gt(ln, ts.Int(0)), ts.Gt(n2, ts.Int(0)))))
		}
		addr := e.allocCells(st, n2)
		// contents unspecified
		key := e.elemKey(el)
		e.havocKey(st, key, ArrSort(SInt))
		return &Value{T: to, Sl: &SliceVal{Ptr: addr, Len: n2, Cap: n2}}
	case kf == kSlice && kt == kScalar && st2 == SStr:
		// string(bytes) / string(runes)
		el := v.T.Underlying().(*types.Slice).Elem()
		if b, ok := el.Underlying().(*types.Basic); ok && b.Kind() == types.Uint8 {
			// string(bytes): a function of the byte heap (by id), the start and the length, so that slicing and
			// concatenation of such strings can be related (axioms of bstr in the prelude)
			h := e.heapGet(st, e.elemKey(el), ArrSort(SInt))
			r := ts.App("bstr", SStr, e.heapID(h), v.Sl.Ptr, v.Sl.Len)
			st.assume(ts.Eq(ts.App("str_len", SInt, r), v.Sl.Len))
			return &Value{T: to, Tm: r}
		}
		r := ts.Fresh("str", SStr)
		if false {
		} else {
			st.assume(ts.Ge(ts.App("str_len", SInt, r), v.Sl.Len))
		}
		return &Value{T: to, Tm: r}
	case kf == kScalar && sf == SInt && kt == kScalar && st2 == SStr:
		// string(rune)
		r := ts.Fresh("str", SStr)
		st.assume(ts.And(ts.Ge(ts.App("str_len", SInt, r), ts.Int(1)), ts.Le(ts.App("str_len", SInt, r), ts.Int(4))))
		return &Value{T: to, Tm: r}
	case kf == kSlice && kt == kSlice:
		return &Value{T: to, Sl: v.Sl}
	case kf == kStruct && kt == kStruct:
		return &Value{T: to, St: v.St}
	case kf == kArray && kt == kArray:
		return &Value{T: to, Tm: v.Tm}
	}
	e.unsup(n, "conversion from %s to %s", e.typeStr(v.T), e.typeStr(to))
	return nil
}
