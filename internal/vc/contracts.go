package vc

import (
	"fmt"
	"go/ast"
	"go/scanner"
	"go/token"
	"regexp"
	"strconv"
	"strings"
)

// Clause is one contract clause; Text is the clause in contract syntax, GoText its Go rendering.
type Clause struct {
	Kind   string // requires ensures invariant decreases ghostvar ghoststmt
	Text   string
	GoText string
	Props  []string
	Line   int
	Ord    int    // ordinal among clauses of this kind in its block
	FnName string // synthetic function name
	Fn     *ast.FuncDecl
	Extra  []string // extra parameter declarations (e.g. ret values for ghost hooks)
	ObjInv bool     // precondition that is the receiver's object invariant (`holds`): assumed at client call sites
}

type LoopContract struct {
	N          int
	Invariants []*Clause
	Decreases  *Clause
	Assigns    []string
	Peel       bool // the loop runs at most once (obligation: no second iteration); see execPeeled
}

// Exempt: `exempt <param> when <cond>` — at returns where cond holds, the object *param may violate its type
// invariant (e.g. a decoder that leaves a half-written value behind when it reports an error).
type Exempt struct {
	Param  string
	Clause *Clause
}

// ClosureContract: contract of a function literal bound once to a local (checked at every inlined call).
type ClosureContract struct {
	Name     string
	Requires []*Clause
	Ensures  []*Clause
}

type GhostVar struct {
	Name string
	Type string
	Init *Clause
}

type GhostHook struct {
	Where    string // "call", "loopbegin", "loopend", "entry"
	N        int
	Callee   string
	Stmts    *Clause
	Optional bool // `precall?` / `call?`: no error when the function has no such call (the hook then never fires)
}

type Contract struct {
	Key            string
	Line           int
	Props          []string
	Requires       []*Clause
	Ensures        []*Clause
	Goals          []*Clause
	Assigns        []string
	Holds          []string            // object-invariant clauses (`holds P`)
	CallbackKeep   []string            // `callbacks-keep K...`: function values called by this function leave these heaps alone (assumed, listed)
	AssignsAt      map[string][]string // `assigns K@p`: heap K is written only at the object parameter p points to (or at fresh objects)
	HasAssigns     bool
	Pure           bool
	Inline         bool
	Trusted        bool
	NilRecv        bool // the method accepts a nil receiver
	NoVerify       bool // contract used at call sites but body not verified here (listed as assumption)
	AdvisorySafety bool // `advisory-safety`: panic-freedom obligations of the body are advisory (claimed through the ledger)
	Loops          map[int]*LoopContract
	Closures       map[string]*ClosureContract
	Exempts        []*Exempt
	GhostVars      []*GhostVar
	Hooks          []*GhostHook
	Cost           *Clause
	Notes          []string
}

type Lemma struct {
	Name  string
	Logic string
	Body  string
	Props []string
	Line  int
}

type ContractFile struct {
	Contracts   map[string]*Contract
	Order       []string
	Lemmas      []*Lemma
	TypeInvs    []*TypeInv
	GlobalInvs  []*GlobalInv
	MapVals     []*TypeInv // `mapvals <global> <var> <type> : <expr>` facts about the values of an immutable package-level map
	NonNilElems []string   // element types whose slice elements are never nil once the slice is visible outside the frame that built it
	MapModels   []string   // `mapmodel <map type>`: Go map types translated precisely (see maps.go)
	FreshOnly   []string   // heap keys that are only ever written on objects allocated by the writer (see `freshonly`)
	Errors      []string
}

// TypeInv: `typeinv *VMValue v: v == nil || wfValue(v)`
// GlobalInv: `globalinv <var> : <expr>` — a fact about a package-level variable that is immutable after init.
type GlobalInv struct {
	Var    string
	Props  []string
	Clause *Clause
}

type TypeInv struct {
	Type   string
	Var    string
	Clause *Clause
}

var propTagRe = regexp.MustCompile(`^\[((?:C\d+[ ,]*)+)\]\s*`)

func splitProps(s string) []string {
	f := strings.FieldsFunc(s, func(r rune) bool { return r == ' ' || r == ',' })
	return f
}

// ParseContracts reads all /*@ ... @*/ blocks of the given source text.
func ParseContracts(src string) *ContractFile {
	cf := &ContractFile{Contracts: map[string]*Contract{}}
	lines := strings.Split(src, "\n")
	in := false
	var cur *Contract
	var curLoop *LoopContract
	var curLemma *Lemma
	var curClosure *ClosureContract
	var lastClause *Clause
	errf := func(line int, f string, a ...any) {
		cf.Errors = append(cf.Errors, fmt.Sprintf("contracts:%d: %s", line, fmt.Sprintf(f, a...)))
	}
	for i, raw := range lines {
		ln := i + 1
		t := strings.TrimSpace(raw)
		if !in {
			if strings.HasPrefix(t, "/*@") {
				in = true
			}
			continue
		}
		if strings.HasPrefix(t, "@*/") {
			in = false
			cur, curLoop, curLemma, lastClause = nil, nil, nil, nil
			continue
		}
		if t == "" || strings.HasPrefix(t, "//") {
			continue
		}
		// strip trailing comment
		if k := strings.Index(t, " // "); k >= 0 {
			t = strings.TrimSpace(t[:k])
		}
		word := t
		rest := ""
		if k := strings.IndexAny(t, " \t"); k >= 0 {
			word, rest = t[:k], strings.TrimSpace(t[k+1:])
		}
		if curLemma != nil && word != "func" && word != "lemma" && word != "typeinv" && word != "globalinv" && word != "freshonly" && word != "nonnil-elems" && word != "mapvals" && word != "mapmodel" {
			curLemma.Body += raw + "\n"
			continue
		}
		switch word {
		case "func":
			cur = &Contract{Key: rest, Line: ln, Loops: map[int]*LoopContract{}, Closures: map[string]*ClosureContract{}}
			curClosure = nil
			if _, dup := cf.Contracts[rest]; dup {
				errf(ln, "duplicate contract for %s", rest)
			}
			cf.Contracts[rest] = cur
			cf.Order = append(cf.Order, rest)
			curLoop, curLemma, lastClause = nil, nil, nil
			continue
		case "lemma":
			f := strings.Fields(rest)
			if len(f) < 2 {
				errf(ln, "lemma needs name and logic")
				continue
			}
			curLemma = &Lemma{Name: f[0], Logic: f[1], Line: ln}
			if len(f) > 2 {
				curLemma.Props = splitProps(strings.Trim(strings.Join(f[2:], " "), "[]"))
			}
			cf.Lemmas = append(cf.Lemmas, curLemma)
			cur, curLoop = nil, nil
			continue
		case "mapvals":
			k := strings.Index(rest, ":")
			if k < 0 {
				errf(ln, "mapvals needs ':'")
				continue
			}
			f := strings.Fields(rest[:k])
			if len(f) != 3 {
				errf(ln, "mapvals <global> <var> <type> : expr")
				continue
			}
			cf.MapVals = append(cf.MapVals, &TypeInv{Var: f[1], Type: f[2], Clause: &Clause{Kind: "mapvals:" + f[0], Text: strings.TrimSpace(rest[k+1:]), Line: ln}})
			continue
		case "nonnil-elems":
			cf.NonNilElems = append(cf.NonNilElems, splitProps(rest)...)
			continue
		case "freshonly":
			cf.FreshOnly = append(cf.FreshOnly, splitProps(rest)...)
			continue
		case "mapmodel":
			cf.MapModels = append(cf.MapModels, splitProps(rest)...)
			continue
		case "globalinv":
			k := strings.Index(rest, ":")
			if k < 0 {
				errf(ln, "globalinv needs ':'")
				continue
			}
			head := strings.TrimSpace(rest[:k])
			var props []string
			if m := propTagRe.FindStringSubmatch(head); m != nil {
				props = splitProps(m[1])
				head = strings.TrimSpace(head[len(m[0]):])
			}
			cf.GlobalInvs = append(cf.GlobalInvs, &GlobalInv{Var: head, Props: props, Clause: &Clause{Kind: "globalinv", Text: strings.TrimSpace(rest[k+1:]), Line: ln, Props: props}})
			continue
		case "typeinv":
			// typeinv <var> <type> : <expr>
			k := strings.Index(rest, ":")
			if k < 0 {
				errf(ln, "typeinv needs ':'")
				continue
			}
			f := strings.Fields(rest[:k])
			if len(f) != 2 {
				errf(ln, "typeinv <var> <type> : expr")
				continue
			}
			cf.TypeInvs = append(cf.TypeInvs, &TypeInv{Var: f[0], Type: f[1], Clause: &Clause{Kind: "typeinv", Text: strings.TrimSpace(rest[k+1:]), Line: ln}})
			continue
		}
		if cur == nil {
			errf(ln, "clause outside a func block: %s", t)
			continue
		}
		var props []string
		if m := propTagRe.FindStringSubmatch(rest); m != nil {
			props = splitProps(m[1])
			rest = rest[len(m[0]):]
		}
		switch word {
		case "props":
			cur.Props = splitProps(rest)
		case "closure":
			curClosure = &ClosureContract{Name: rest}
			cur.Closures[rest] = curClosure
			curLoop = nil
		case "requires":
			if curClosure != nil {
				c := &Clause{Kind: "requires", Text: rest, Props: props, Line: ln, Ord: len(curClosure.Requires) + 1}
				curClosure.Requires = append(curClosure.Requires, c)
				lastClause = c
				break
			}
			c := &Clause{Kind: "requires", Text: rest, Props: props, Line: ln, Ord: len(cur.Requires) + 1}
			cur.Requires = append(cur.Requires, c)
			lastClause = c
		case "ensures":
			if curClosure != nil {
				c := &Clause{Kind: "ensures", Text: rest, Props: props, Line: ln, Ord: len(curClosure.Ensures) + 1}
				curClosure.Ensures = append(curClosure.Ensures, c)
				lastClause = c
				break
			}
			c := &Clause{Kind: "ensures", Text: rest, Props: props, Line: ln, Ord: len(cur.Ensures) + 1}
			cur.Ensures = append(cur.Ensures, c)
			lastClause = c
		case "holds":
			// object invariant of the receiver: required and ensured by this method.  Clients (functions that are not
			// methods of the receiver's type) may assume it: the type's tables are private (frame obligation), every method
			// `holds` it (frame obligation) and the zero value satisfies it.
			c := &Clause{Kind: "requires", Text: rest, Props: props, Line: ln, Ord: len(cur.Requires) + 1, ObjInv: true}
			cur.Requires = append(cur.Requires, c)
			c2 := &Clause{Kind: "ensures", Text: rest, Props: props, Line: ln, Ord: len(cur.Ensures) + 1}
			cur.Ensures = append(cur.Ensures, c2)
			cur.Holds = append(cur.Holds, rest)
			lastClause = nil
		case "exempt":
			f := strings.SplitN(rest, " when ", 2)
			if len(f) != 2 {
				errf(ln, "exempt <param> when <cond>")
				continue
			}
			cur.Exempts = append(cur.Exempts, &Exempt{Param: strings.TrimSpace(f[0]), Clause: &Clause{Kind: "exempt", Text: strings.TrimSpace(f[1]), Line: ln}})
		case "goal":
			// a postcondition that is checked when the function is verified but never assumed at call sites
			c := &Clause{Kind: "goal", Text: rest, Props: props, Line: ln, Ord: len(cur.Goals) + 1}
			cur.Goals = append(cur.Goals, c)
			lastClause = c
		case "assigns":
			if curLoop != nil {
				curLoop.Assigns = append(curLoop.Assigns, splitProps(rest)...)
			} else {
				cur.HasAssigns = true
				if rest != "nothing" {
					for _, w := range splitProps(rest) {
						if k := strings.Index(w, "@"); k > 0 {
							key, par := w[:k], w[k+1:]
							if cur.AssignsAt == nil {
								cur.AssignsAt = map[string][]string{}
							}
							cur.AssignsAt[key] = append(cur.AssignsAt[key], par)
							w = key
						}
						dup := false
						for _, x := range cur.Assigns {
							if x == w {
								dup = true
							}
						}
						if !dup {
							cur.Assigns = append(cur.Assigns, w)
						}
					}
				}
			}
		case "callbacks-keep":
			cur.CallbackKeep = append(cur.CallbackKeep, splitProps(rest)...)
		case "pure":
			cur.Pure = true
			cur.HasAssigns = true
		case "nilrecv":
			cur.NilRecv = true
		case "inline":
			cur.Inline = true
		case "trusted":
			cur.Trusted = true
		case "noverify":
			cur.NoVerify = true
		case "advisory-safety":
			cur.AdvisorySafety = true
		case "note":
			cur.Notes = append(cur.Notes, rest)
		case "loop":
			n, err := strconv.Atoi(rest)
			if err != nil {
				errf(ln, "loop needs a number")
				continue
			}
			curLoop = &LoopContract{N: n}
			cur.Loops[n] = curLoop
			curClosure = nil
		case "invariant":
			if curLoop == nil {
				errf(ln, "invariant outside loop")
				continue
			}
			c := &Clause{Kind: "invariant", Text: rest, Props: props, Line: ln, Ord: len(curLoop.Invariants) + 1}
			curLoop.Invariants = append(curLoop.Invariants, c)
			lastClause = c
		case "peel":
			if curLoop == nil {
				errf(ln, "peel outside loop")
				continue
			}
			curLoop.Peel = true
		case "decreases":
			if curLoop == nil {
				errf(ln, "decreases outside loop")
				continue
			}
			curLoop.Decreases = &Clause{Kind: "decreases", Text: rest, Props: props, Line: ln, Ord: 1}
			lastClause = curLoop.Decreases
		case "ghost":
			// ghost var name type = expr
			// ghost at call N callee : stmts
			// ghost at loop N begin|end : stmts
			// ghost at entry : stmts
			f := strings.Fields(rest)
			if len(f) >= 4 && f[0] == "var" {
				k := strings.Index(rest, "=")
				if k < 0 {
					errf(ln, "ghost var needs initialiser")
					continue
				}
				head := strings.Fields(rest[:k])
				gv := &GhostVar{Name: head[1], Type: strings.Join(head[2:], " "), Init: &Clause{Kind: "ghostinit", Text: strings.TrimSpace(rest[k+1:]), Line: ln}}
				cur.GhostVars = append(cur.GhostVars, gv)
			} else if len(f) >= 2 && f[0] == "at" {
				k := strings.Index(rest, ":")
				if k < 0 {
					errf(ln, "ghost at ... needs ':'")
					continue
				}
				head := strings.Fields(rest[:k])
				stm := &Clause{Kind: "ghoststmt", Text: strings.TrimSpace(rest[k+1:]), Line: ln}
				h := &GhostHook{Stmts: stm}
				switch {
				case len(head) == 4 && (head[1] == "call" || head[1] == "precall" || head[1] == "call?" || head[1] == "precall?"):
					h.Where = strings.TrimSuffix(head[1], "?")
					h.Optional = strings.HasSuffix(head[1], "?")
					h.N, _ = strconv.Atoi(head[2])
					h.Callee = head[3]
				case len(head) == 4 && head[1] == "loop":
					h.N, _ = strconv.Atoi(head[2])
					h.Where = "loop" + head[3]
				case len(head) == 2 && head[1] == "entry":
					h.Where = "entry"
				default:
					errf(ln, "bad ghost hook: %s", rest[:k])
					continue
				}
				cur.Hooks = append(cur.Hooks, h)
				lastClause = stm
			} else {
				errf(ln, "bad ghost clause")
			}
		case "|":
			// continuation of the previous clause
			if lastClause == nil {
				errf(ln, "continuation without clause")
				continue
			}
			lastClause.Text += " " + rest
		default:
			errf(ln, "unknown clause keyword %q", word)
		}
	}
	return cf
}

// ---- clause text -> Go expression text --------------------------------------------------

type tok struct {
	t   token.Token
	lit string
}

func scanToks(s string) ([]tok, error) {
	var sc scanner.Scanner
	fset := token.NewFileSet()
	f := fset.AddFile("", fset.Base(), len(s))
	var errs []string
	sc.Init(f, []byte(s), func(pos token.Position, msg string) { errs = append(errs, msg) }, 0)
	var out []tok
	for {
		_, t, lit := sc.Scan()
		if t == token.EOF {
			break
		}
		if t == token.SEMICOLON && lit == "\n" {
			continue
		}
		if lit == "" {
			lit = t.String()
		}
		out = append(out, tok{t, lit})
	}
	if len(errs) > 0 {
		return nil, fmt.Errorf("%s", strings.Join(errs, "; "))
	}
	return out, nil
}

func joinToks(ts []tok) string {
	var sb strings.Builder
	for i, t := range ts {
		if i > 0 {
			sb.WriteByte(' ')
		}
		sb.WriteString(t.lit)
	}
	return sb.String()
}

// ClauseToGo rewrites `A ==> B`, `A <==> B`, `forall k in [lo,hi): P`, `exists k in [lo,hi): P`
// into plain Go using implies()/forall()/exists() spec intrinsics.
func ClauseToGo(s string) (string, error) {
	ts, err := scanToks(s)
	if err != nil {
		return "", err
	}
	return rewriteToks(ts)
}

func rewriteToks(ts []tok) (string, error) {
	// quantifier over strings (map keys): forallkey k: P
	if len(ts) > 3 && ts[0].lit == "forallkey" && ts[2].t == token.COLON {
		body, err := rewriteToks(ts[3:])
		if err != nil {
			return "", err
		}
		return fmt.Sprintf("forallStr(func(%s string) bool { return %s })", ts[1].lit, body), nil
	}
	// quantifier at the head: forall k in [ lo , hi ) : P   (extends to the end of this token group)
	if len(ts) > 0 && (ts[0].lit == "forall" || ts[0].lit == "exists") && len(ts) > 3 && ts[2].lit == "in" {
		name := ts[1].lit
		if ts[3].t != token.LBRACK {
			return "", fmt.Errorf("quantifier: expected '['")
		}
		// find the comma at depth 0 and the closing ')'
		depth := 0
		comma, close := -1, -1
		for i := 4; i < len(ts); i++ {
			switch ts[i].t {
			case token.LPAREN, token.LBRACK, token.LBRACE:
				depth++
			case token.RPAREN, token.RBRACK, token.RBRACE:
				if depth == 0 && ts[i].t == token.RPAREN {
					close = i
				}
				depth--
			case token.COMMA:
				if depth == 0 && comma < 0 {
					comma = i
				}
			}
			if close >= 0 {
				break
			}
		}
		if comma < 0 || close < 0 || close+1 >= len(ts) || ts[close+1].t != token.COLON {
			return "", fmt.Errorf("quantifier: expected 'in [lo, hi): body'")
		}
		lo, err := rewriteToks(ts[4:comma])
		if err != nil {
			return "", err
		}
		hi, err := rewriteToks(ts[comma+1 : close])
		if err != nil {
			return "", err
		}
		body, err := rewriteToks(ts[close+2:])
		if err != nil {
			return "", err
		}
		return fmt.Sprintf("%s(int(%s), int(%s), func(%s int) bool { return %s })", ts[0].lit, lo, hi, name, body), nil
	}
	// top-level <==> then ==> (right associative), at depth 0
	depth := 0
	for i := 0; i < len(ts); i++ {
		switch ts[i].t {
		case token.LPAREN, token.LBRACK, token.LBRACE:
			depth++
		case token.RPAREN, token.RBRACK, token.RBRACE:
			depth--
		}
		if depth == 0 && ts[i].t == token.LEQ && i+1 < len(ts) && (ts[i+1].t == token.EQL || ts[i+1].t == token.ASSIGN) && i+2 < len(ts) && ts[i+2].t == token.GTR {
			l, err := rewriteToks(ts[:i])
			if err != nil {
				return "", err
			}
			r, err := rewriteToks(ts[i+3:])
			if err != nil {
				return "", err
			}
			return fmt.Sprintf("((%s) == (%s))", l, r), nil
		}
	}
	depth = 0
	for i := 0; i < len(ts); i++ {
		switch ts[i].t {
		case token.LPAREN, token.LBRACK, token.LBRACE:
			depth++
		case token.RPAREN, token.RBRACK, token.RBRACE:
			depth--
		}
		if depth == 0 && ts[i].t == token.EQL && i+1 < len(ts) && ts[i+1].t == token.GTR {
			l, err := rewriteToks(ts[:i])
			if err != nil {
				return "", err
			}
			r, err := rewriteToks(ts[i+2:])
			if err != nil {
				return "", err
			}
			return fmt.Sprintf("implies(%s, %s)", l, r), nil
		}
	}
	// recurse into parenthesised groups
	var sb strings.Builder
	for i := 0; i < len(ts); i++ {
		if ts[i].t == token.LPAREN {
			d := 0
			j := i
			for ; j < len(ts); j++ {
				if ts[j].t == token.LPAREN {
					d++
				} else if ts[j].t == token.RPAREN {
					d--
					if d == 0 {
						break
					}
				}
			}
			if j >= len(ts) {
				return "", fmt.Errorf("unbalanced parentheses")
			}
			// split arguments at depth-0 commas so that each argument may itself hold ==>
			inner := ts[i+1 : j]
			var parts []string
			start, dd := 0, 0
			for k := 0; k <= len(inner); k++ {
				if k < len(inner) {
					switch inner[k].t {
					case token.LPAREN, token.LBRACK, token.LBRACE:
						dd++
					case token.RPAREN, token.RBRACK, token.RBRACE:
						dd--
					}
				}
				if k == len(inner) || (dd == 0 && inner[k].t == token.COMMA) {
					if k > start {
						p, err := rewriteToks(inner[start:k])
						if err != nil {
							return "", err
						}
						parts = append(parts, p)
					}
					start = k + 1
				}
			}
			sb.WriteString("(" + strings.Join(parts, ", ") + ")")
			i = j
			continue
		}
		if sb.Len() > 0 {
			sb.WriteByte(' ')
		}
		sb.WriteString(ts[i].lit)
	}
	return sb.String(), nil
}

// renameIdents applies a local-variable renaming to every clause of the contract.
func (c *Contract) renameIdents(m map[string]string) {
	do := func(cl *Clause) {
		if cl != nil {
			cl.Text = renameIdents(cl.Text, m)
		}
	}
	for _, cl := range c.Requires {
		do(cl)
	}
	for _, cl := range c.Ensures {
		do(cl)
	}
	for _, cl := range c.Goals {
		do(cl)
	}
	for _, ex := range c.Exempts {
		do(ex.Clause)
	}
	for _, gv := range c.GhostVars {
		do(gv.Init)
	}
	for _, h := range c.Hooks {
		do(h.Stmts)
	}
	for _, lc := range c.Loops {
		for _, cl := range lc.Invariants {
			do(cl)
		}
		do(lc.Decreases)
	}
	for _, cc := range c.Closures {
		for _, cl := range cc.Requires {
			do(cl)
		}
		for _, cl := range cc.Ensures {
			do(cl)
		}
	}
	if c.Cost != nil {
		do(c.Cost)
	}
	for k, ps := range c.AssignsAt {
		for i, p := range ps {
			if nn, ok := m[p]; ok {
				c.AssignsAt[k][i] = nn
			}
		}
	}
}
