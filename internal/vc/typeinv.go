package vc

import (
	"go/ast"
)

// Type-invariant hooks.  (Filled in by typeinv2.go once invariants are declared; these are the neutral defaults.)

func (fx *fctx) applyTypeInv(st *State, v *Value, n ast.Node) {}

func (fx *fctx) noteWrite(st *State, key string, addr *Term) {}

func (fx *fctx) boundaryCheck(st *State, n ast.Node, tag string) {}

func (fx *fctx) boundaryAssume(st *State, n ast.Node) {}

func (fx *fctx) beforeCall(st *State, recv *Value, args []*Value, n ast.Node) {}

func (fx *fctx) afterCall(st *State, n ast.Node) {}

func (fx *fctx) onEscape(st *State, v *Value, n ast.Node, tag string) {}
