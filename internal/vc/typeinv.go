package vc

import (
	"fmt"
	"go/ast"
	"go/types"
	"strings"
)

// Type invariants (`typeinv v *T : P(v)`): a data-structure invariant of struct T.
//
// Methodology (sound for sequential code, see DESIGN.md §2.2 "Global value invariant"):
//   * every T object satisfies P at function boundaries (calls, returns) and loop heads, except objects this
//     frame has written since the last boundary ("dirty") and elements of []T slices ("raw": the VM stack,
//     whose slots are governed by an explicit invariant of the function that owns them);
//   * P(a) is ASSUMED when a field of the object at address a is read (unless a is dirty or the access is raw);
//   * a write to a field of T makes the object dirty; at the next boundary P is ASSERTED for every dirty object;
//   * a raw pointer (address of a []T element) that escapes — passed to a call, returned, stored — must satisfy P
//     at that point (asserted), because the receiver will assume it.

type typeInvInfo struct {
	Struct string
	Clause *Clause
	Var    string
	Ptr    types.Type
}

func (e *Engine) setupTypeInvs() {
	e.typeInvs = map[string]*typeInvInfo{}
	for _, ti := range e.P.CF.TypeInvs {
		if ti.Clause.Fn == nil {
			continue
		}
		ps := ti.Clause.Fn.Type.Params.List
		if len(ps) != 1 {
			continue
		}
		pt := e.P.Info.TypeOf(ps[0].Type)
		p, ok := pt.Underlying().(*types.Pointer)
		if !ok {
			continue
		}
		sn := e.structName(p.Elem())
		e.typeInvs[sn] = &typeInvInfo{Struct: sn, Clause: ti.Clause, Var: ti.Var, Ptr: pt}
	}
}

func (e *Engine) typeInvForKey(key string) *typeInvInfo {
	if len(e.typeInvs) == 0 || key == "" {
		return nil
	}
	if strings.HasPrefix(key, "box.") {
		return nil
	}
	key = baseKey(key)
	i := strings.IndexByte(key, '.')
	if i <= 0 {
		return nil
	}
	return e.typeInvs[key[:i]]
}

// typeInvForType: t is T or *T with a declared invariant.
func (e *Engine) typeInvForType(t types.Type) *typeInvInfo {
	if len(e.typeInvs) == 0 || t == nil {
		return nil
	}
	if p, ok := t.Underlying().(*types.Pointer); ok {
		t = p.Elem()
	}
	if _, ok := t.Underlying().(*types.Struct); !ok {
		return nil
	}
	if e.isOpaqueStruct(t) {
		return nil
	}
	return e.typeInvs[e.structName(t)]
}

func (fx *fctx) invTerm(st *State, addr *Term, ti *typeInvInfo) *Term {
	saved := fx.inTypeInv
	fx.inTypeInv = true
	defer func() { fx.inTypeInv = saved }()
	return fx.evalClause(st, nil, ti.Clause, map[string]*Value{ti.Var: {T: ti.Ptr, Tm: addr}})
}

// onFieldRead is called by loadCell before a field of a struct with a type invariant is read.
func (fx *fctx) onFieldRead(st *State, key string, addr *Term) {
	if fx.inTypeInv || st.quiet {
		return
	}
	if fx.rawAccess && fx.rawCond == nil {
		return
	}
	ti := fx.e.typeInvForKey(key)
	if ti == nil {
		return
	}
	ts := fx.e.ts
	for _, d := range st.dirty {
		if d == addr {
			return
		}
	}
	tag := addr.id*7 + len(st.dirty)
	_ = tag
	inv := fx.invTerm(st, addr, ti)
	var distinct []*Term
	for _, d := range st.dirty {
		distinct = append(distinct, ts.Ne(addr, d))
	}
	if fx.rawAccess && fx.rawCond != nil {
		distinct = append(distinct, ts.Not(fx.rawCond))
	}
	g := ts.Implies(ts.And(distinct...), inv)
	if st.known == nil {
		st.known = map[int]bool{}
	}
	if st.known[g.id] {
		return
	}
	st.known[g.id] = true
	st.assume(g)
}

func (fx *fctx) noteWrite(st *State, key string, addr *Term) {
	if fx.inTypeInv {
		return
	}
	if fx.con != nil && len(fx.con.AssignsAt[key]) > 0 && !fx.spec && fx.e.boxMode == 0 {
		fx.atOrd++
		fx.assert(st, "assigns-at", fmt.Sprintf("%s#%d", key, fx.atOrd), fx.allowedWriteAddr(key, addr), fx.fi.Decl, nil, "write to "+key+" only at "+strings.Join(fx.con.AssignsAt[key], ", ")+" or at a fresh object")
	}
	ti := fx.e.typeInvForKey(key)
	if ti == nil {
		return
	}
	if fx.rawAccess && fx.rawCond == nil {
		return // raw slots are governed by explicit invariants
	}
	for _, d := range st.dirty {
		if d == addr {
			return
		}
	}
	st.dirty = append(st.dirty, addr)
	st.dirtyTI = append(st.dirtyTI, ti)
	// facts assumed for other objects stay valid; facts about this object are re-established at the boundary
}

// boundaryCheck asserts the invariant of every object written since the last boundary.
func (fx *fctx) boundaryCheck(st *State, n ast.Node, tag string) {
	fx.boundaryCheckArgs(st, n, tag, nil, false)
}

// boundaryCheckArgs: objects that are boxed locals of this frame (address-taken local variables) are not visible
// to anybody else: their invariant is required only when their address is handed to a call (passed lists the
// addresses handed over); at returns and loop heads they are skipped.
func (fx *fctx) boundaryCheckArgs(st *State, n ast.Node, tag string, passed []*Term, atCall bool) {
	if st.dead || len(st.dirty) == 0 || fx.spec {
		return
	}
	dirty := st.dirty
	tis := st.dirtyTI
	st.dirty = nil
	st.dirtyTI = nil
	for i, d := range dirty {
		if fx.localAddr[d.id] {
			handed := false
			for _, p := range passed {
				if p == d {
					handed = true
				}
			}
			if !handed {
				if atCall {
					// still dirty after the call
					st.dirty = append(st.dirty, d)
					st.dirtyTI = append(st.dirtyTI, tis[i])
				}
				continue
			}
		}
		inv := fx.invTerm(st, d, tis[i])
		if c, ok := fx.exitExempt[d.id]; ok {
			inv = fx.e.ts.Or(c, inv)
		}
		fx.assert(st, "typeinv", tis[i].Struct+"@"+tag, inv, n, nil, "invariant of "+tis[i].Struct+" re-established for an object written in this frame")
		st.assume(inv)
	}
}

func (fx *fctx) boundaryAssume(st *State, n ast.Node) {}

func (fx *fctx) applyTypeInv(st *State, v *Value, n ast.Node) {}

// beforeCall: objects written must be well-formed again, and raw pointers handed to the callee must point to
// well-formed objects.
func (fx *fctx) beforeCall(st *State, recv *Value, args []*Value, n ast.Node) {
	if fx.spec {
		return
	}
	var passed []*Term
	if recv != nil && recv.Tm != nil {
		passed = append(passed, recv.Tm)
	}
	for _, a := range args {
		if a != nil && a.Tm != nil {
			passed = append(passed, a.Tm)
		}
	}
	fx.boundaryCheckArgs(st, n, "call", passed, true)
	for _, a := range args {
		fx.publishSlice(st, a, n, "arg")
	}
	check := func(v *Value, what string) {
		if v == nil || !v.Raw || v.Tm == nil {
			return
		}
		ti := fx.e.typeInvForType(v.T)
		if ti == nil {
			return
		}
		ts := fx.e.ts
		g := ts.Or(ts.Eq(v.Tm, ts.Int(0)), fx.invTerm(st, v.Tm, ti))
		if v.RawC != nil {
			g = ts.Implies(v.RawC, g)
		}
		fx.assert(st, "typeinv-escape", ti.Struct+"@"+what, g, n, nil, "pointer into a raw slice passed to a call points to a well-formed "+ti.Struct)
		st.assume(g)
	}
	check(recv, "recv")
	for _, a := range args {
		check(a, "arg")
	}
}

func (fx *fctx) afterCall(st *State, n ast.Node) {}

func (fx *fctx) onEscape(st *State, v *Value, n ast.Node, tag string) {
	if v != nil && v.Sl != nil && !fx.spec && strings.HasPrefix(tag, "exit") {
		fx.publishSlice(st, v, n, "return")
	}
	if v == nil || !v.Raw || v.Tm == nil || fx.spec {
		return
	}
	ti := fx.e.typeInvForType(v.T)
	if ti == nil {
		return
	}
	ts := fx.e.ts
	g := ts.Or(ts.Eq(v.Tm, ts.Int(0)), fx.invTerm(st, v.Tm, ti))
	if v.RawC != nil {
		g = ts.Implies(v.RawC, g)
	}
	fx.assert(st, "typeinv-escape", ti.Struct+"@"+tag, g, n, nil, "pointer into a raw slice that escapes points to a well-formed "+ti.Struct)
}
