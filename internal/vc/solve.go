package vc

import (
	"context"
	"fmt"
	"os"
	"os/exec"
	"path/filepath"
	"regexp"
	"sort"
	"strings"
	"sync"
	"time"
)

var preludeDefs = map[string]string{
	"wrap_i64":       "(define-fun wrap_i64 ((x Int)) Int (ite (and (<= (- 9223372036854775808) x) (<= x 9223372036854775807)) x (- (mod (+ x 9223372036854775808) 18446744073709551616) 9223372036854775808)))",
	"wrap_i32":       "(define-fun wrap_i32 ((x Int)) Int (ite (and (<= (- 2147483648) x) (<= x 2147483647)) x (- (mod (+ x 2147483648) 4294967296) 2147483648)))",
	"wrap_i16":       "(define-fun wrap_i16 ((x Int)) Int (ite (and (<= (- 32768) x) (<= x 32767)) x (- (mod (+ x 32768) 65536) 32768)))",
	"wrap_i8":        "(define-fun wrap_i8 ((x Int)) Int (ite (and (<= (- 128) x) (<= x 127)) x (- (mod (+ x 128) 256) 128)))",
	"wrap_u64":       "(define-fun wrap_u64 ((x Int)) Int (ite (and (<= 0 x) (<= x 18446744073709551615)) x (mod x 18446744073709551616)))",
	"wrap_u32":       "(define-fun wrap_u32 ((x Int)) Int (ite (and (<= 0 x) (<= x 4294967295)) x (mod x 4294967296)))",
	"wrap_u16":       "(define-fun wrap_u16 ((x Int)) Int (ite (and (<= 0 x) (<= x 65535)) x (mod x 65536)))",
	"wrap_u8":        "(define-fun wrap_u8 ((x Int)) Int (ite (and (<= 0 x) (<= x 255)) x (mod x 256)))",
	"go_div":         "(define-fun go_div ((x Int) (y Int)) Int (ite (>= x 0) (ite (> y 0) (div x y) (- (div x (- y)))) (ite (> y 0) (- (div (- x) y)) (div (- x) (- y)))))",
	"go_mod":         "(define-fun go_mod ((x Int) (y Int)) Int (- x (* y (go_div x y))))",
	"min2":           "(define-fun min2 ((x Int) (y Int)) Int (ite (<= x y) x y))",
	"str_len":        "(declare-fun str_len (Str) Int)",
	"str_empty":      "(declare-fun str_empty () Str)",
	"str_cat":        "(declare-fun str_cat (Str Str) Str)",
	"str_sub":        "(declare-fun str_sub (Str Int Int) Str)",
	"str_at":         "(declare-fun str_at (Str Int) Int)",
	"str_lt":         "(declare-fun str_lt (Str Str) Bool)",
	"str_le":         "(declare-fun str_le (Str Str) Bool)",
	"str_gt":         "(declare-fun str_gt (Str Str) Bool)",
	"str_ge":         "(declare-fun str_ge (Str Str) Bool)",
	"str_runecount":  "(declare-fun str_runecount (Str) Int)",
	"flt_add":        "(declare-fun flt_add (Flt Flt) Flt)",
	"flt_sub":        "(declare-fun flt_sub (Flt Flt) Flt)",
	"flt_mul":        "(declare-fun flt_mul (Flt Flt) Flt)",
	"flt_div":        "(declare-fun flt_div (Flt Flt) Flt)",
	"flt_neg":        "(declare-fun flt_neg (Flt) Flt)",
	"flt_lt":         "(declare-fun flt_lt (Flt Flt) Bool)",
	"flt_le":         "(declare-fun flt_le (Flt Flt) Bool)",
	"flt_gt":         "(declare-fun flt_gt (Flt Flt) Bool)",
	"flt_ge":         "(declare-fun flt_ge (Flt Flt) Bool)",
	"flt_eq":         "(declare-fun flt_eq (Flt Flt) Bool)",
	"flt_of_int":     "(declare-fun flt_of_int (Int) Flt)",
	"int_of_flt":     "(declare-fun int_of_flt (Flt) Int)",
	"bit_and":        "(declare-fun bit_and (Int Int) Int)",
	"bit_or":         "(declare-fun bit_or (Int Int) Int)",
	"bit_xor":        "(declare-fun bit_xor (Int Int) Int)",
	"bit_andnot":     "(declare-fun bit_andnot (Int Int) Int)",
	"bit_shl":        "(declare-fun bit_shl (Int Int) Int)",
	"bit_shr":        "(declare-fun bit_shr (Int Int) Int)",
	"rng_draw":       "(declare-fun rng_draw (Int Int) Int)",
	"psum":           "(declare-fun psum (Int Int Int) Int)",
	"perm_idx":       "(declare-fun perm_idx (Int Int Int Int Int) Int)",
	"map_len":        "(declare-fun map_len (Int Int) Int)",
	"nlmul":          "(declare-fun nlmul (Int Int) Int)",
	"shared_builtin": "(declare-fun shared_builtin (Int) Bool)",
	"bstr":           "(declare-fun bstr (Int Int Int) Str)",
	"str_line":       "(declare-fun str_line (Str Int) Str)",
	"str_linecount":  "(declare-fun str_linecount (Str) Int)",
	"fn_math_Pow":    "(declare-fun fn_math_Pow (Flt Flt) Flt)",
	"fn_math_Mod":    "(declare-fun fn_math_Mod (Flt Flt) Flt)",
	"fn_math_Max":    "(declare-fun fn_math_Max (Flt Flt) Flt)",
	"fn_math_Min":    "(declare-fun fn_math_Min (Flt Flt) Flt)",
	"fn_math_Floor":  "(declare-fun fn_math_Floor (Flt) Flt)",
	"fn_math_Ceil":   "(declare-fun fn_math_Ceil (Flt) Flt)",
	"fn_math_Round":  "(declare-fun fn_math_Round (Flt) Flt)",
	"fn_math_Abs":    "(declare-fun fn_math_Abs (Flt) Flt)",
	"fn_math_Trunc":  "(declare-fun fn_math_Trunc (Flt) Flt)",
	"fn_math_Sqrt":   "(declare-fun fn_math_Sqrt (Flt) Flt)",
	"json_doc":       "(declare-fun json_doc (Int Int) Int)",
	"json_int":       "(declare-fun json_int (Int Int) Int)",
	"json_flt":       "(declare-fun json_flt (Int Int) Flt)",
	"json_str":       "(declare-fun json_str (Int Int) Str)",
}

// defs that depend on others
var preludeDeps = map[string][]string{
	"go_mod": {"go_div"},
	"bstr":   {"str_sub", "str_cat", "str_len"},
}

var preludeAxioms = map[string][]string{
	"str_len": {
		"(assert (forall ((s Str)) (! (and (>= (str_len s) 0) (<= (str_len s) 4611686018427387904)) :pattern ((str_len s)))))",
	},
	"str_empty": {
		"(assert (= (str_len str_empty) 0))",
		"(assert (forall ((s Str)) (! (=> (= (str_len s) 0) (= s str_empty)) :pattern ((str_len s)))))",
	},
	"str_at": {
		"(assert (forall ((s Str) (i Int)) (! (and (<= 0 (str_at s i)) (<= (str_at s i) 255)) :pattern ((str_at s i)))))",
	},
	"bstr": {
		"(assert (forall ((h Int) (p Int) (n Int) (a Int) (b Int)) (! (=> (and (<= 0 a) (<= a b) (<= b n)) (= (str_sub (bstr h p n) a b) (bstr h (+ p a) (- b a)))) :pattern ((str_sub (bstr h p n) a b)))))",
		"(assert (forall ((h Int) (p Int) (a Int) (q Int) (b Int)) (! (=> (and (= q (+ p a)) (>= a 0) (>= b 0)) (= (str_cat (bstr h p a) (bstr h q b)) (bstr h p (+ a b)))) :pattern ((str_cat (bstr h p a) (bstr h q b))))))",
	},
	"rng_draw": {
		"(assert (forall ((s Int) (k Int)) (! (and (<= 0 (rng_draw s k)) (<= (rng_draw s k) 18446744073709551615)) :pattern ((rng_draw s k)))))",
	},
}

const anyDecl = "(declare-datatypes ((Any 0)) (((any_nil) (any_int (any_itag Int) (any_ival Int)) (any_str (any_stag Int) (any_sval Str)) (any_flt (any_ftag Int) (any_fval Flt)) (any_bool (any_btag Int) (any_bval Bool)) (any_ref (any_rtag Int) (any_raddr Int)))))"

// BuildSMT renders an obligation as an SMT-LIB script.
func (e *Engine) BuildSMT(o *Obligation, models bool) string { return e.BuildSMTVariant(o, models, 0) }

// hasNonlinear: a product of two non-literal terms occurs in t.
func hasNonlinear(t *Term, memo map[int]bool) bool {
	if v, ok := memo[t.id]; ok {
		return v
	}
	r := false
	if t.Op == "*" && len(t.Args) == 2 && t.Args[0].Int == nil && t.Args[1].Int == nil {
		r = true
	} else if (t.Op == "go_mod" || t.Op == "go_div" || t.Op == "mod" || t.Op == "div") && len(t.Args) == 2 && t.Args[1].Int == nil {
		r = true
	} else {
		for _, a := range t.Args {
			if hasNonlinear(a, memo) {
				r = true
				break
			}
		}
	}
	memo[t.id] = r
	return r
}

// BuildSMTVariant renders the obligation.  Variant 0 uses every assumption.  Variant 1 drops the assumptions
// that contain non-linear arithmetic when the goal itself is linear (dropping assumptions is always sound for a
// proof; a `sat` answer of variant 1 is never used).
func (e *Engine) BuildSMTVariant(o *Obligation, models bool, variant int) string {
	if o.Lemma != nil {
		return o.Lemma.Body
	}
	ts := e.ts
	assumes := o.Assumes
	if variant == 2 {
		memo := map[int]bool{}
		any := hasNonlinear(o.Goal, memo)
		for _, a := range assumes {
			if hasNonlinear(a, memo) {
				any = true
			}
		}
		if !any {
			return ""
		}
	}
	if variant == 1 {
		memo := map[int]bool{}
		if hasNonlinear(o.Goal, memo) {
			return ""
		}
		var kept []*Term
		dropped := 0
		for _, a := range assumes {
			if hasNonlinear(a, memo) {
				dropped++
				continue
			}
			kept = append(kept, a)
		}
		if dropped == 0 {
			return ""
		}
		assumes = kept
	}
	roots := append([]*Term{}, assumes...)
	neg := ts.Not(o.Goal)
	roots = append(roots, neg)
	// instantiated facts about psum for the terms that occur: one-step unfolding, and the relation between
	// the sums over a conditional heap and over its branches
	var extra []*Term
	seenPs := map[int]bool{}
	work := CollectApps(roots, "psum")
	for len(work) > 0 && len(seenPs) < 400 {
		ps := work[0]
		work = work[1:]
		if seenPs[ps.id] || hasBoundVar(ps) {
			continue
		}
		seenPs[ps.id] = true
		hid, p, n := ps.Args[0], ps.Args[1], ps.Args[2]
		h := e.heapIds[hid.id]
		if h == nil {
			continue
		}
		if h.Op == "ite" {
			a := e.psumTerm(h.Args[1], p, n)
			b := e.psumTerm(h.Args[2], p, n)
			extra = append(extra, ts.Eq(ps, ts.Ite(h.Args[0], a, b)))
			work = append(work, a, b)
			continue
		}
		n1 := ts.Sub(n, ts.Int(1))
		prev := e.psumTerm(h, p, n1)
		extra = append(extra, ts.Implies(ts.Le(n, ts.Int(0)), ts.Eq(ps, ts.Int(0))))
		extra = append(extra, ts.Implies(ts.Gt(n, ts.Int(0)), ts.Eq(ps, ts.Add(prev, ts.Select(h, ts.Add(p, n1))))))
	}
	roots = append(roots, extra...)
	pr := NewPrinter(ts)
	if variant == 2 {
		pr.AbstractNL = true
	}
	pr.Prepare(roots...)
	var body []string
	for _, a := range assumes {
		body = append(body, "(assert "+pr.Print(a)+")")
	}
	for _, a := range extra {
		body = append(body, "(assert "+pr.Print(a)+")")
	}
	goalTxt := "(assert " + pr.Print(neg) + ")"
	var sb strings.Builder
	if models {
		sb.WriteString("(set-option :produce-models true)\n")
	}
	sb.WriteString("(set-logic ALL)\n")
	sb.WriteString("(declare-sort Str 0)\n(declare-sort Flt 0)\n")
	sb.WriteString(anyDecl + "\n")
	funs := pr.UsedFuns()
	// close over dependencies
	need := map[string]bool{}
	var addNeed func(f string)
	addNeed = func(f string) {
		if need[f] {
			return
		}
		need[f] = true
		for _, d := range preludeDeps[f] {
			addNeed(d)
		}
	}
	for f := range funs {
		if _, ok := preludeDefs[f]; ok {
			addNeed(f)
		}
	}
	// string facts need str_len / str_empty
	usedDecls := pr.UsedDecls()
	var lits []string
	for _, d := range usedDecls {
		if strings.HasPrefix(d, "strlit") {
			lits = append(lits, d)
		}
	}
	if len(lits) > 0 || need["str_cat"] || need["str_sub"] {
		addNeed("str_len")
	}
	if funs["str_empty"] || len(lits) > 0 {
		addNeed("str_empty")
		addNeed("str_len")
	}
	order := []string{}
	for f := range need {
		order = append(order, f)
	}
	sort.Slice(order, func(i, j int) bool {
		// dependencies first
		di := len(preludeDeps[order[i]])
		dj := len(preludeDeps[order[j]])
		if di != dj {
			return di < dj
		}
		return order[i] < order[j]
	})
	for _, f := range order {
		sb.WriteString(preludeDefs[f] + "\n")
	}
	for name, sig := range ts.Funs {
		if funs[name] {
			fmt.Fprintf(&sb, "(declare-fun %s %s)\n", name, sig)
		}
	}
	for _, d := range usedDecls {
		fmt.Fprintf(&sb, "(declare-fun |%s| () %s)\n", d, ts.Decls[d])
	}
	for _, f := range order {
		for _, ax := range preludeAxioms[f] {
			sb.WriteString(ax + "\n")
		}
	}
	// string literal facts
	if len(lits) > 0 {
		rev := map[string]string{}
		for s, t := range e.strLits {
			rev[strings.Trim(t.Op, "|")] = s
		}
		for _, l := range lits {
			fmt.Fprintf(&sb, "(assert (= (str_len |%s|) %d))\n", l, len(rev[l]))
		}
		if len(lits) > 1 {
			sb.WriteString("(assert (distinct")
			for _, l := range lits {
				sb.WriteString(" |" + l + "|")
			}
			sb.WriteString("))\n")
		}
	}
	for _, d := range pr.Defs() {
		sb.WriteString(d + "\n")
	}
	for _, b := range body {
		sb.WriteString(b + "\n")
	}
	sb.WriteString(goalTxt + "\n")
	sb.WriteString("(check-sat)\n")
	if models {
		var names []string
		for n := range o.ModelVars {
			names = append(names, n)
		}
		sort.Strings(names)
		if len(names) > 0 {
			sb.WriteString("(get-value (")
			for _, n := range names {
				sb.WriteString(pr.Print(o.ModelVars[n]) + " ")
			}
			sb.WriteString("))\n")
		}
	}
	return sb.String()
}

func hasBoundVar(t *Term) bool {
	if len(t.Args) == 0 {
		return !t.IsVar && strings.HasPrefix(t.Op, "|") && strings.Contains(t.Op, "?")
	}
	for _, a := range t.Args {
		if hasBoundVar(a) {
			return true
		}
	}
	return false
}

type solverSpec struct {
	name string
	args func(file string, secs int) []string
}

// extra z3 configurations raced in stage 2 (quantifier instantiation is seed-sensitive)
var seedSolvers = []solverSpec{
	{"z3-new/seed2", func(f string, s int) []string {
		return []string{"z3-new", fmt.Sprintf("-T:%d", s), "smt.random_seed=2", f}
	}},
	{"z3-new/seed3", func(f string, s int) []string {
		return []string{"z3-new", fmt.Sprintf("-T:%d", s), "smt.random_seed=3", f}
	}},
	{"z3/seed2", func(f string, s int) []string { return []string{"z3", fmt.Sprintf("-T:%d", s), "smt.random_seed=2", f} }},
	{"z3/seed3", func(f string, s int) []string { return []string{"z3", fmt.Sprintf("-T:%d", s), "smt.random_seed=3", f} }},
}

var solvers = []solverSpec{
	{"z3-new", func(f string, s int) []string { return []string{"z3-new", fmt.Sprintf("-T:%d", s), f} }},
	{"cvc5", func(f string, s int) []string {
		return []string{"cvc5", "--lang=smt2", fmt.Sprintf("--tlimit=%d", s*1000), f}
	}},
	{"z3", func(f string, s int) []string { return []string{"z3", fmt.Sprintf("-T:%d", s), f} }},
}

type solveResult struct {
	verdict string // unsat sat unknown
	solver  string
	secs    float64
	output  string
}

func runSolver(sp solverSpec, file string, secs int) solveResult {
	return runSolverCtx(context.Background(), sp, file, secs)
}

func runSolverCtx(parent context.Context, sp solverSpec, file string, secs int) solveResult {
	args := sp.args(file, secs)
	ctx, cancel := context.WithTimeout(parent, time.Duration(secs+3)*time.Second)
	defer cancel()
	t0 := time.Now()
	cmd := exec.CommandContext(ctx, args[0], args[1:]...)
	out, _ := cmd.CombinedOutput()
	el := time.Since(t0).Seconds()
	txt := string(out)
	first := strings.TrimSpace(strings.SplitN(txt, "\n", 2)[0])
	v := "unknown"
	switch first {
	case "unsat":
		v = "unsat"
	case "sat":
		v = "sat"
	}
	if strings.Contains(first, "error") || strings.HasPrefix(first, "(error") {
		v = "error"
	}
	return solveResult{verdict: v, solver: sp.name, secs: el, output: txt}
}

// SolveAll discharges every obligation, racing solvers, with `par` workers.
func (e *Engine) SolveAll(obls []*Obligation, secs int, par int, thorough bool, keepDir string) {
	dir, err := os.MkdirTemp("", "dsvc-smt-")
	if err != nil {
		panic(err)
	}
	defer os.RemoveAll(dir)
	// render scripts sequentially (the term store is not concurrency-safe)
	files := make([]string, len(obls))
	alt := make([][]string, len(obls))
	for i, o := range obls {
		txt := e.BuildSMT(o, false)
		o.SMTSize = len(txt)
		files[i] = filepath.Join(dir, fmt.Sprintf("o%d.smt2", i))
		os.WriteFile(files[i], []byte(txt), 0o644)
		if o.Kind != "frame" && o.Lemma == nil {
			for v := 1; v <= 2; v++ {
				if t1 := e.BuildSMTVariant(o, false, v); t1 != "" {
					af := filepath.Join(dir, fmt.Sprintf("o%d.v%d.smt2", i, v))
					alt[i] = append(alt[i], af)
					os.WriteFile(af, []byte(t1), 0o644)
					if keepDir != "" {
						os.MkdirAll(keepDir, 0o755)
						os.WriteFile(filepath.Join(keepDir, safeFile(o.Name)+fmt.Sprintf(".v%d.smt2", v)), []byte(t1), 0o644)
					}
				}
			}
		}
		if keepDir != "" {
			os.MkdirAll(keepDir, 0o755)
			os.WriteFile(filepath.Join(keepDir, safeFile(o.Name)+".smt2"), []byte(txt), 0o644)
		}
	}
	var wg sync.WaitGroup
	sem := make(chan struct{}, par)
	for i := range obls {
		wg.Add(1)
		sem <- struct{}{}
		go func(i int) {
			defer wg.Done()
			defer func() { <-sem }()
			solveOne(obls[i], files[i], alt[i], secs, thorough)
		}(i)
	}
	wg.Wait()
}

func safeFile(s string) string {
	re := regexp.MustCompile(`[^A-Za-z0-9_.#-]+`)
	s = re.ReplaceAllString(s, "_")
	if len(s) > 150 {
		s = s[:150]
	}
	return s
}

func solveOne(o *Obligation, file string, altFiles []string, secs int, thorough bool) {
	if o.Solver == "simplifier" && o.Status == "proved" {
		return
	}
	if o.Kind == "frame" {
		// decided by the syntactic frame pass
		if o.Forced != "" {
			o.Status = o.Forced
		} else if o.Goal.IsTrue() {
			o.Status = "proved"
		} else {
			o.Status = "failed"
		}
		return
	}
	if o.Canary {
		// vacuity guard: only an `unsat` answer matters (the path would be contradictory); keep it cheap
		ctx, cancel := context.WithCancel(context.Background())
		ch := make(chan solveResult, 2)
		go func() { ch <- runSolverCtx(ctx, solvers[0], file, 3) }()
		go func() { ch <- runSolverCtx(ctx, solvers[2], file, 3) }()
		r := <-ch
		if r.verdict != "unsat" && r.verdict != "sat" {
			if r2 := <-ch; r2.verdict == "unsat" || r2.verdict == "sat" {
				r = r2
			}
		}
		cancel()
		o.Solver, o.Secs, o.Output = r.solver, r.secs, firstLines(r.output, 3)
		switch r.verdict {
		case "unsat":
			o.Status = "proved"
		case "sat":
			o.Status = "failed"
		default:
			o.Status = "undecided"
		}
		return
	}
	// first a short attempt with the usually fastest solver, then a race of all three
	quick := secs
	if quick > 2 {
		quick = 2
	}
	// stage 1: the two z3 versions side by side
	var r solveResult
	{
		ctx, cancel := context.WithCancel(context.Background())
		ch := make(chan solveResult, 2)
		go func() { ch <- runSolverCtx(ctx, solvers[0], file, quick) }()
		go func() { ch <- runSolverCtx(ctx, solvers[2], file, quick) }()
		r = <-ch
		if r.verdict != "unsat" && r.verdict != "sat" {
			r2 := <-ch
			if r2.verdict == "unsat" || r2.verdict == "sat" {
				r = r2
			}
		}
		cancel()
	}
	total := r.secs
	if r.verdict == "unknown" || r.verdict == "error" {
		all := append(append([]solverSpec{}, solvers...), seedSolvers...)
		njobs := len(all) * (1 + len(altFiles))
		ctx, cancelAll := context.WithCancel(context.Background())
		t1 := time.Now()
		ch := make(chan solveResult, njobs)
		for _, sp := range all {
			go func(sp solverSpec) { ch <- runSolverCtx(ctx, sp, file, secs) }(sp)
			for _, af := range altFiles {
				go func(sp solverSpec, af string) {
					rr := runSolverCtx(ctx, sp, af, secs)
					if strings.HasSuffix(af, ".v1.smt2") {
						rr.solver += "(linear-assumptions)"
					} else {
						rr.solver += "(products-abstracted)"
					}
					if rr.verdict == "sat" {
						rr.verdict = "unknown" // a model of a weakened problem proves nothing
					}
					ch <- rr
				}(sp, af)
			}
		}
		var best solveResult
		best.verdict = "unknown"
		var outs []string
		for j := 0; j < njobs; j++ {
			rr := <-ch
			outs = append(outs, rr.solver+": "+strings.TrimSpace(firstLines(rr.output, 3)))
			if rr.verdict == "unsat" || rr.verdict == "sat" {
				best = rr
				break
			}
		}
		cancelAll()
		best.secs = time.Since(t1).Seconds()
		total += best.secs
		if best.verdict == "unknown" {
			best.output = strings.Join(outs, " | ")
			best.solver = "all"
		}
		r = best
	} else if thorough {
		// cross-check definitive answers with a second solver
		r2 := runSolver(solvers[1], file, secs)
		if (r2.verdict == "sat" || r2.verdict == "unsat") && r2.verdict != r.verdict {
			r.verdict = "unknown"
			r.output = fmt.Sprintf("solver disagreement: %s says %s, %s says %s", r.solver, r.verdict, r2.solver, r2.verdict)
		}
	}
	// A refutation (`sat`) is believed only when a second solver does not contradict it: z3 4.8.12 was seen answering
	// `sat` under load on a query that it and z3 5.1 both decide `unsat` when asked again.  The other z3 is asked with the
	// full budget; `unsat` there wins (a proof found by one solver stands), `sat` or no answer leaves the refutation.
	if r.verdict == "sat" {
		other := solvers[0]
		if strings.HasPrefix(r.solver, "z3-new") {
			other = solvers[2]
		}
		r2 := runSolver(other, file, secs)
		total += r2.secs
		switch {
		case r2.verdict == "unsat":
			r3 := runSolver(solvers[0], file, secs) // ask the newer z3 once more for the record
			total += r3.secs
			if r3.verdict != "sat" {
				r = solveResult{verdict: "unsat", solver: r2.solver + "(refutation by " + r.solver + " not reproduced)", secs: r2.secs, output: r2.output}
			}
		case r2.verdict != "sat" && !strings.HasPrefix(r.solver, "z3-new"):
			// the old z3's refutation could not be confirmed either way: undecided (a ledger obligation is then retried
			// with a larger budget before anything is reported)
			r = solveResult{verdict: "unknown", solver: "all", secs: r2.secs, output: "refutation by " + r.solver + " not confirmed by " + r2.solver + " (" + r2.verdict + ")"}
		}
	}
	o.Solver = r.solver
	o.Secs = total
	o.Output = firstLines(r.output, 6)
	switch r.verdict {
	case "unsat":
		o.Status = "proved"
	case "sat":
		o.Status = "failed"
	default:
		o.Status = "undecided"
	}
}

func firstLines(s string, n int) string {
	ls := strings.Split(strings.TrimSpace(s), "\n")
	if len(ls) > n {
		ls = ls[:n]
	}
	return strings.Join(ls, "\n")
}

// ModelFor re-runs a failed obligation with model production and returns the solver output.
func (e *Engine) ModelFor(o *Obligation, secs int) string {
	dir, err := os.MkdirTemp("", "dsvc-model-")
	if err != nil {
		return ""
	}
	defer os.RemoveAll(dir)
	txt := e.BuildSMT(o, true)
	if o.Lemma == nil && len(o.ModelVars) == 0 {
		txt += "(get-model)\n"
	}
	f := filepath.Join(dir, "m.smt2")
	os.WriteFile(f, []byte(txt), 0o644)
	r := runSolver(solvers[0], f, secs)
	if r.verdict != "sat" {
		r = runSolver(solvers[1], f, secs)
	}
	return r.output
}
