package vc

import (
	"encoding/json"
	"fmt"
	"os"
	"os/exec"
	"path/filepath"
	"sort"
	"strconv"
	"strings"
	"sync"
)

// Witness search for grammar obligations (failure atomicity and friends).
//
// A structural obligation of the grammar that does not hold is only a *candidate* violation of C03/C08: the stale
// code matters only if some input makes the flagged element fail after code was emitted AND the parse as a whole
// still succeeds.  For every such obligation the generator below derives candidate inputs mechanically from the
// grammar (shortest sentences reaching the flagged element, followed by text that makes the element fail) and the
// harness runs them against the real parser: a candidate is a witness when Parse(input) succeeds with matched text m
// and the code it compiled differs from the code compiled for m alone (text given back contributed code).
// Candidates are heuristics (look-ahead and flag predicates are ignored when sentences are derived); only inputs
// confirmed on the real code are ever reported.

type pegGen struct {
	pa     *pegAnalysis
	min    map[*pegRule]string
	minOK  map[*pegRule]bool
	rich   map[*pegRule]string // a sentence that takes repetitions / options once and prefers non-empty alternatives
	richOK map[*pegRule]bool
	ctx    map[*pegRule][]string
}

func newPegGen(pa *pegAnalysis) *pegGen {
	g := &pegGen{pa: pa, min: map[*pegRule]string{}, minOK: map[*pegRule]bool{}, ctx: map[*pegRule][]string{}, rich: map[*pegRule]string{}, richOK: map[*pegRule]bool{}}
	for changed := true; changed; {
		changed = false
		for _, r := range pa.g.Rules {
			s, ok := g.minStr(r.Expr, false)
			if ok && (!g.minOK[r] || sentLess(s, g.min[r])) {
				g.min[r], g.minOK[r] = s, true
				changed = true
			}
		}
	}
	// rich sentences: two rounds (a rule's rich sentence may use the rich sentences of the rules it references once)
	for round := 0; round < 2; round++ {
		nr, nok := map[*pegRule]string{}, map[*pegRule]bool{}
		for _, r := range pa.g.Rules {
			if s, ok := g.minStr(r.Expr, true); ok && len(s) <= 40 {
				nr[r], nok[r] = s, true
			}
		}
		g.rich, g.richOK = nr, nok
	}
	g.contexts()
	return g
}

// pickChar chooses a character matched by a pigeon character class text such as [a-z0-9_] or [^'\\]i.
func pickChar(val string) string {
	s := strings.TrimSuffix(val, "i")
	if !strings.HasPrefix(s, "[") || !strings.HasSuffix(s, "]") {
		return "a"
	}
	s = s[1 : len(s)-1]
	if strings.HasPrefix(s, "^") {
		for _, c := range []string{"a", "1", "_", " ", "~"} {
			if !strings.Contains(s, c) {
				return c
			}
		}
		return "a"
	}
	if strings.HasPrefix(s, "\\") && len(s) >= 2 {
		switch s[1] {
		case 'n':
			return "\n"
		case 't':
			return "\t"
		case 'r':
			return "\r"
		case 'p':
			return "a"
		default:
			return string(s[1])
		}
	}
	for _, r := range s {
		return string(r)
	}
	return "a"
}

// minStr: a short string matched by n (ok=false while a referenced rule has no known sentence yet).
// rich: repetitions and options are taken once instead of zero times.
func (g *pegGen) minStr(n *pegNode, rich bool) (string, bool) {
	switch n.Kind {
	case pkSeq:
		var sb strings.Builder
		for _, k := range n.Kids {
			s, ok := g.minStr(k, rich)
			if !ok {
				return "", false
			}
			sb.WriteString(s)
		}
		return sb.String(), true
	case pkChoice:
		best, found := "", false
		for _, k := range n.Kids {
			s, ok := g.minStr(k, rich)
			if !ok {
				continue
			}
			better := !found || sentLess(s, best)
			if rich && found {
				// prefer the shortest non-empty alternative
				better = (best == "" && s != "") || (s != "" && sentLess(s, best))
			}
			if better {
				best, found = s, true
			}
		}
		return best, found
	case pkStar, pkOpt:
		if rich {
			if s, ok := g.minStr(n.Kids[0], false); ok {
				return s, true
			}
		}
		return "", true
	case pkPlus:
		return g.minStr(n.Kids[0], rich)
	case pkAndCode, pkNotCode:
		// state predicates: configuration-flag tests are satisfiable (the harness enables the dice flags); anything
		// else (parse-error alternatives, custom-dice lookups) is not used to derive sentences
		if g.pa.e.actionFactsOf(n.Fn).ReadsFlag != "" {
			return "", true
		}
		return "", false
	case pkNot:
		if n.Kids[0].Kind == pkAny {
			return "", false // end of input: cannot be followed by more text
		}
		return "", true
	case pkAnd, pkCode:
		return "", true
	case pkLabeled, pkAction:
		return g.minStr(n.Kids[0], rich)
	case pkLit:
		return n.Text, true
	case pkClass:
		return pickChar(n.Text), true
	case pkAny:
		return "x", true
	case pkRef:
		r := g.pa.g.Rules[n.Ref]
		if rich && g.richOK[r] {
			return g.rich[r], true
		}
		return g.min[r], g.minOK[r]
	}
	return "", false
}

// altStr: a sentence for n that takes, at the first choice it meets, the second-shortest alternative (so that an
// element such as "number or parenthesised expression" is also tried in its other form).
func (g *pegGen) altStr(n *pegNode, depth int) (string, bool) {
	if depth > 6 {
		return "", false
	}
	switch n.Kind {
	case pkChoice:
		var opts []string
		for _, k := range n.Kids {
			if s, ok := g.minStr(k, false); ok {
				opts = append(opts, s)
			}
		}
		opts = uniq(opts)
		sort.SliceStable(opts, func(i, j int) bool { return sentLess(opts[i], opts[j]) })
		if len(opts) >= 2 {
			return opts[1], true
		}
		for _, k := range n.Kids {
			if s, ok := g.altStr(k, depth+1); ok {
				return s, true
			}
		}
		return "", false
	case pkSeq:
		// the first element that has an alternative form takes it, the others their shortest sentence
		for i, k := range n.Kids {
			a, ok := g.altStr(k, depth+1)
			if !ok {
				continue
			}
			if m, okm := g.minStr(k, false); okm && m == a {
				continue
			}
			var sb strings.Builder
			for j, k2 := range n.Kids {
				if j == i {
					sb.WriteString(a)
					continue
				}
				m, okm := g.minStr(k2, false)
				if !okm {
					return "", false
				}
				sb.WriteString(m)
			}
			return sb.String(), true
		}
		return "", false
	case pkLabeled, pkAction, pkPlus:
		return g.altStr(n.Kids[0], depth+1)
	case pkRef:
		return g.altStr(g.pa.g.Rules[n.Ref].Expr, depth+1)
	}
	return "", false
}

// variants of a short sentence for n.
func (g *pegGen) variants(n *pegNode) []string {
	var out []string
	for _, rich := range []bool{false, true} {
		if s, ok := g.minStr(n, rich); ok {
			out = append(out, s)
		}
	}
	if s, ok := g.altStr(n, 0); ok && len(s) <= 40 {
		out = append(out, s)
	}
	return uniq(out)
}

// sentLess: shorter first; among equally long sentences prefer digits (a number is the least surprising expression).
func sentLess(a, b string) bool {
	if len(a) != len(b) {
		return len(a) < len(b)
	}
	return nonDigits(a) < nonDigits(b)
}

func nonDigits(s string) int {
	n := 0
	for _, c := range s {
		if c < '0' || c > '9' {
			n++
		}
	}
	return n
}

func squeezeWS(s string) string {
	return strings.Join(strings.Fields(s), "")
}

func uniq(in []string) []string {
	seen := map[string]bool{}
	var out []string
	for _, s := range in {
		if !seen[s] {
			seen[s] = true
			out = append(out, s)
		}
	}
	return out
}

func shortest(in []string, k int) []string {
	in = uniq(in)
	// contexts that differ only in white space are one context
	seen := map[string]bool{}
	var ded []string
	sort.SliceStable(in, func(i, j int) bool { return len(in[i]) < len(in[j]) })
	for _, s := range in {
		if q := squeezeWS(s); !seen[q] {
			seen[q] = true
			ded = append(ded, s)
		}
	}
	in = ded
	sort.SliceStable(in, func(i, j int) bool {
		if len(in[i]) != len(in[j]) {
			return len(in[i]) < len(in[j])
		}
		return in[i] < in[j]
	})
	if len(in) > k {
		in = in[:k]
	}
	return in
}

func cross(a, b []string, k int) []string {
	var out []string
	for _, x := range a {
		for _, y := range b {
			out = append(out, x+y)
		}
	}
	return shortest(out, k)
}

// refsWithLeft visits n and reports, for every rule reference inside it, the texts that can precede the reference
// within n.
func (g *pegGen) refsWithLeft(n *pegNode, left []string, f func(r *pegRule, left []string)) {
	switch n.Kind {
	case pkSeq:
		cur := left
		for _, k := range n.Kids {
			g.refsWithLeft(k, cur, f)
			cur = cross(cur, g.variants(k), 6)
			if len(cur) == 0 {
				return
			}
		}
	case pkChoice, pkStar, pkPlus, pkOpt, pkLabeled, pkAction:
		for _, k := range n.Kids {
			g.refsWithLeft(k, left, f)
		}
	case pkRef:
		f(g.pa.g.Rules[n.Ref], left)
	}
}

const ctxPerRule = 8

func (g *pegGen) contexts() {
	start := g.pa.g.ByName["dicescript"]
	if start == nil {
		return
	}
	g.ctx[start] = []string{""}
	for round := 0; round < 12; round++ {
		changed := false
		for _, q := range g.pa.g.Rules {
			cq := g.ctx[q]
			if len(cq) == 0 {
				continue
			}
			g.refsWithLeft(q.Expr, []string{""}, func(r *pegRule, left []string) {
				nw := shortest(append(append([]string{}, g.ctx[r]...), cross(cq, left, 16)...), ctxPerRule)
				if len(nw) != len(g.ctx[r]) || strings.Join(nw, "\x00") != strings.Join(g.ctx[r], "\x00") {
					g.ctx[r] = nw
					changed = true
				}
			})
		}
		if !changed {
			break
		}
	}
}

// leftOfPath: texts that can precede the element at path (rule.i.j...) inside its rule, and the element.
func (g *pegGen) leftOfPath(path string) (*pegRule, *pegNode, []string) {
	parts := strings.Split(path, ".")
	r := g.pa.g.ByName[parts[0]]
	if r == nil {
		return nil, nil, nil
	}
	n := r.Expr
	left := []string{""}
	skip := func() {
		for n.Kind == pkLabeled || n.Kind == pkAction {
			n = n.Kids[0]
		}
	}
	for _, p := range parts[1:] {
		idx, err := strconv.Atoi(p)
		if err != nil {
			return nil, nil, nil
		}
		skip()
		switch n.Kind {
		case pkSeq:
			if idx >= len(n.Kids) {
				return nil, nil, nil
			}
			for _, k := range n.Kids[:idx] {
				left = cross(left, g.variants(k), 6)
			}
			n = n.Kids[idx]
		case pkChoice:
			if idx >= len(n.Kids) {
				return nil, nil, nil
			}
			n = n.Kids[idx]
		case pkStar, pkPlus:
			// the element may be reached in a later iteration
			left = shortest(append(append([]string{}, left...), cross(left, g.variants(n.Kids[0]), 6)...), 8)
			n = n.Kids[0]
		case pkOpt:
			n = n.Kids[0]
		default:
			return nil, nil, nil
		}
	}
	return r, n, left
}

var pegJunk = []string{"", "~", "x", "1", ")", "]", "}", "'", ",", " ~"}
var pegGlobalPrefix = []string{"", "1\n", "1;", "1 "}

// candidatesFor: inputs that may make the element at path fail after the elements before it matched.
func (g *pegGen) candidatesFor(path string) []string {
	r, _, left := g.leftOfPath(path)
	if r == nil {
		return nil
	}
	ctxs := g.ctx[r]
	if len(ctxs) == 0 {
		ctxs = []string{""}
	}
	var out []string
	for _, c := range ctxs {
		for _, l := range left {
			for _, gp := range pegGlobalPrefix {
				for _, j := range pegJunk {
					out = append(out, gp+c+l+j)
				}
			}
		}
	}
	out = uniq(out)
	if len(out) > 6000 {
		out = out[:6000]
	}
	return out
}

// ---- harness ----------------------------------------------------------------------------------------------------------

const pegHarnessSrc = `package dicescript

import (
	"encoding/json"
	"fmt"
	"os"
	"sort"
	"strings"
	"testing"
)

func dsvcPegVM() *Context {
	vm := NewVM()
	vm.Config.EnableDiceWoD = true
	vm.Config.EnableDiceCoC = true
	vm.Config.EnableDiceFate = true
	vm.Config.EnableDiceDoubleCross = true
	vm.Config.OpCountLimit = 30000
	vm.Config.DefaultDiceSideExpr = "100"
	vm.GlobalValueLoadFunc = func(name string) *VMValue { return NewIntVal(1) }
	return vm
}

// paths of the grammar's sequence nodes, named like dsvc's static analysis names them
var dsvcSeqPath = map[*seqExpr]string{}

func dsvcWalk(x any, path string) {
	switch n := x.(type) {
	case *seqExpr:
		dsvcSeqPath[n] = path
		for i, k := range n.exprs {
			dsvcWalk(k, fmt.Sprintf("%s.%d", path, i))
		}
	case *choiceExpr:
		for i, k := range n.alternatives {
			dsvcWalk(k, fmt.Sprintf("%s.%d", path, i))
		}
	case *zeroOrMoreExpr:
		dsvcWalk(n.expr, path+".0")
	case *oneOrMoreExpr:
		dsvcWalk(n.expr, path+".0")
	case *zeroOrOneExpr:
		dsvcWalk(n.expr, path+".0")
	case *labeledExpr:
		dsvcWalk(n.expr, path)
	case *actionExpr:
		dsvcWalk(n.expr, path)
	}
}

var dsvcEvents map[string]bool

func dsvcPegCompile(s string) (asm string, matched string, ok bool) {
	defer func() {
		if r := recover(); r != nil {
			asm, matched, ok = fmt.Sprint("PANIC: ", r), "", false
		}
	}()
	dsvcEvents = map[string]bool{}
	vm := dsvcPegVM()
	if err := vm.Parse(s); err != nil {
		return "", "", false
	}
	off := vm.parser.pt.offset
	if off > len(s) {
		off = len(s)
	}
	return vm.GetAsmText(), s[:off], true
}

func dsvcPegRun(s string) (out string) {
	defer func() {
		if r := recover(); r != nil {
			out = fmt.Sprint("PANIC: ", r)
		}
	}()
	vm := dsvcPegVM()
	vm.Config.DiceMinMode = true
	if err := vm.Run(s); err != nil {
		return "error: " + err.Error()
	}
	r := "<nil>"
	if vm.Ret != nil {
		r = vm.Ret.ToRepr()
	}
	return fmt.Sprintf("ret=%s ops=%d", r, vm.NumOpCount)
}

// TestDsvcPegWitness: text that the parser gave back must not have contributed code: for every candidate input on
// which Parse succeeds, compiling the input and compiling its matched prefix alone must give the same code.  The
// instrumented sequence matcher says which sequence elements failed after the parser data had changed; a differing
// compile is attributed to those elements.
func TestDsvcPegWitness(t *testing.T) {
	b, err := os.ReadFile(os.Getenv("DSVC_PEG_CANDS"))
	if err != nil {
		t.Skip("no candidates")
	}
	var inputs []string
	if err := json.Unmarshal(b, &inputs); err != nil {
		t.Fatal(err)
	}
	for _, r := range g.rules {
		dsvcWalk(r.expr, r.name)
	}
	instrumented := DSVC_INSTRUMENTED
	if instrumented {
		dsvcSeqHook = func(seq *seqExpr, idx int) {
			if dsvcEvents != nil {
				dsvcEvents[fmt.Sprintf("%s.%d", dsvcSeqPath[seq], idx)] = true
			}
		}
	}
	fmt.Println("PEG-HARNESS instrumented =", instrumented, "inputs =", len(inputs))
	found := map[string]int{}
	reached := map[string]bool{}
	parsed, differing := 0, 0
	for _, in := range inputs {
		asmA, m, ok := dsvcPegCompile(in)
		ev := dsvcEvents
		for p := range ev {
			reached[p] = true
		}
		if !ok {
			if strings.HasPrefix(asmA, "PANIC") {
				fmt.Printf("PEG-PANIC %q %s\n", in, asmA)
			}
			continue
		}
		parsed++
		if m == in || (instrumented && len(ev) == 0) {
			continue
		}
		asmB, _, okB := dsvcPegCompile(m)
		if okB && asmA == asmB {
			continue
		}
		differing++
		var paths []string
		if instrumented {
			for p := range ev {
				if found[p] < 2 {
					paths = append(paths, p)
				}
			}
		} else {
			paths = []string{"?"}
		}
		if len(paths) == 0 {
			continue
		}
		sort.Strings(paths)
		ra, rb := dsvcPegRun(in), "(matched text alone does not parse)"
		if okB {
			rb = dsvcPegRun(m)
		}
		for _, p := range paths {
			found[p]++
			w := map[string]any{"path": p, "input": in, "matched": m, "code_input": asmA, "code_matched": asmB, "run_input": ra, "run_matched": rb}
			jb, _ := json.Marshal(w)
			fmt.Printf("PEG-WITNESS %s\n", jb)
		}
	}
	for p := range reached {
		if found[p] == 0 {
			fmt.Printf("PEG-REACHED %s\n", p)
		}
	}
	fmt.Printf("PEG-STATS parsed=%d differing=%d\n", parsed, differing)
}
`

// instrumentation of the generated parser (harness only, injected with -overlay; /repo is not modified): the
// sequence matcher reports when a sequence fails after the parser data changed since the sequence began.
const pegSeqOrig = "\tpt := p.pt\n\tfor _, expr := range seq.exprs {\n\t\tval, ok := p.parseExprWrap(expr)\n\t\tif !ok {\n"
const pegSeqInstr = "\tpt := p.pt\n\tvar dsvcSnap dsvcSnapT\n\tdsvcOn := dsvcSeqHook != nil && !p.checkSkipCode()\n\tif dsvcOn {\n\t\tdsvcSnap = dsvcSnapshot(p)\n\t}\n\tfor dsvcI, expr := range seq.exprs {\n\t\tdsvcEarlier := dsvcOn && dsvcSnap != dsvcSnapshot(p)\n\t\tval, ok := p.parseExprWrap(expr)\n\t\tif !ok {\n\t\t\tif dsvcEarlier {\n\t\t\t\tdsvcSeqHook(seq, dsvcI)\n\t\t\t}\n"
const pegInstrTail = `

var dsvcSeqHook func(seq *seqExpr, idx int)

type dsvcSnapT struct {
	codeIndex, codeStack, counters, jmps, names, breaks, continues, loops, flags int
	counterTop, jmpTop                                                      IntType
}

func dsvcSnapshot(p *parser) dsvcSnapT {
	d := p.cur.data
	s := dsvcSnapT{d.codeIndex, len(d.codeStack), len(d.counterStack), len(d.jmpStack), len(d.varnameStack), len(d.breakStack), len(d.continueStack), d.loopLayer, len(d.flagsStack), 0, 0}
	if n := len(d.counterStack); n > 0 {
		s.counterTop = d.counterStack[n-1]
	}
	if n := len(d.jmpStack); n > 0 {
		s.jmpTop = d.jmpStack[n-1]
	}
	return s
}
`

type pegWitness struct {
	Path        string `json:"path"`
	Input       string `json:"input"`
	Matched     string `json:"matched"`
	CodeInput   string `json:"code_input"`
	CodeMatched string `json:"code_matched"`
	RunInput    string `json:"run_input"`
	RunMatched  string `json:"run_matched"`
}

type pegHarnessResult struct {
	Witness      map[string][]pegWitness // by grammar path
	Reached      map[string]bool         // element seen failing after emission, but harmlessly
	Instrumented bool
	Inputs       int
	Raw          string
}

// runPegHarness runs the candidates against the real parser (in-package test injected with -overlay).
func (e *Engine) runPegHarness(inputs []string) (*pegHarnessResult, error) {
	dir, err := os.MkdirTemp("", "dsvc-peg-")
	if err != nil {
		return nil, err
	}
	defer os.RemoveAll(dir)
	tf := filepath.Join(dir, "zz_dsvc_peg_test.go")
	repl := map[string]string{filepath.Join(RepoDir, "zz_dsvc_peg_test.go"): tf}
	instrumented := false
	if src, err := os.ReadFile(filepath.Join(RepoDir, "roll.peg.go")); err == nil && strings.Count(string(src), pegSeqOrig) == 1 {
		ip := filepath.Join(dir, "roll.peg.instr.go")
		os.WriteFile(ip, []byte(strings.Replace(string(src), pegSeqOrig, pegSeqInstr, 1)+pegInstrTail), 0o644)
		repl[filepath.Join(RepoDir, "roll.peg.go")] = ip
		instrumented = true
	}
	hs := strings.Replace(pegHarnessSrc, "DSVC_INSTRUMENTED", strconv.FormatBool(instrumented), 1)
	if !instrumented {
		hs += "\nvar dsvcSeqHook func(seq *seqExpr, idx int)\n"
	}
	os.WriteFile(tf, []byte(hs), 0o644)
	ov := map[string]map[string]string{"Replace": repl}
	ob, _ := json.Marshal(ov)
	of := filepath.Join(dir, "ov.json")
	os.WriteFile(of, ob, 0o644)
	env := append(os.Environ(), "GOFLAGS=-mod=mod", "GOPROXY=off", "GOSUMDB=off", "GOTOOLCHAIN=local")
	bin := filepath.Join(dir, "peg.test")
	cmd := exec.Command("go", "test", "-overlay", of, "-vet=off", "-c", "-o", bin, ".")
	cmd.Dir = RepoDir
	cmd.Env = env
	if out, err := cmd.CombinedOutput(); err != nil {
		return &pegHarnessResult{Raw: string(out)}, fmt.Errorf("harness does not build: %s", firstLines(string(out), 15))
	}
	const shards = 12
	outs := make([]string, shards)
	var wg sync.WaitGroup
	for k := 0; k < shards; k++ {
		var part []string
		for i := k; i < len(inputs); i += shards {
			part = append(part, inputs[i])
		}
		pb, _ := json.Marshal(part)
		pf := filepath.Join(dir, fmt.Sprintf("cands%d.json", k))
		os.WriteFile(pf, pb, 0o644)
		wg.Add(1)
		go func(k int) {
			defer wg.Done()
			c := exec.Command(bin, "-test.v", "-test.timeout", "300s", "-test.run", "TestDsvcPegWitness$")
			c.Dir = RepoDir
			c.Env = append(append([]string{}, env...), "DSVC_PEG_CANDS="+pf) // private copy: appending to the shared slice races
			o, _ := c.CombinedOutput()
			outs[k] = string(o)
		}(k)
	}
	wg.Wait()
	txt := strings.Join(outs, "\n")
	for _, o := range outs {
		if !strings.Contains(o, "--- PASS: TestDsvcPegWitness") {
			return &pegHarnessResult{Raw: txt}, fmt.Errorf("harness did not run to completion: %s", firstLines(o, 15))
		}
	}
	res := &pegHarnessResult{Witness: map[string][]pegWitness{}, Reached: map[string]bool{}, Instrumented: instrumented, Inputs: len(inputs), Raw: txt}
	for _, l := range strings.Split(txt, "\n") {
		if strings.HasPrefix(l, "PEG-WITNESS ") {
			var w pegWitness
			if json.Unmarshal([]byte(l[len("PEG-WITNESS "):]), &w) == nil {
				res.Witness[w.Path] = append(res.Witness[w.Path], w)
			}
		} else if strings.HasPrefix(l, "PEG-REACHED ") {
			res.Reached[strings.TrimSpace(l[len("PEG-REACHED "):])] = true
		}
	}
	return res, nil
}

// decidePegViolations: the atomicity obligations get a witness search on the real code.  Candidate inputs are
// derived from the grammar for every structurally failing obligation; all candidates are run once and every
// stale-code event the instrumented parser reports is attributed to the obligation of the element that failed.
//   - structurally failing, witness found      -> failed, replayable
//   - structurally failing, no witness         -> undecided (the structural condition is stronger than the property:
//     the failing element may always abort the whole parse)
//   - structurally fine, witness found         -> failed as well (the structural argument missed an emission)
func (e *Engine) decidePegViolations(pa *pegAnalysis, obls []*Obligation, pathOf func(o *Obligation) string) {
	var bad []*Obligation
	for _, o := range obls {
		if !o.Goal.IsTrue() {
			bad = append(bad, o)
		}
	}
	if len(bad) == 0 && os.Getenv("DSVC_PEG_ALWAYS") == "" {
		return
	}
	g := newPegGen(pa)
	if os.Getenv("DSVC_PEG_DEBUG") != "" {
		for _, r := range pa.g.Rules {
			fmt.Fprintf(os.Stderr, "GEN %s min=%q ok=%v rich=%q ctx=%q\n", r.Name, g.min[r], g.minOK[r], g.rich[r], g.ctx[r])
		}
	}
	var inputs []string
	for _, o := range bad {
		inputs = append(inputs, g.candidatesFor(pathOf(o))...)
	}
	inputs = uniq(inputs)
	// (length, text) order: the shards see ascending inputs, so the shortest, lexicographically first witness of
	// every element is found whatever the scheduling — known findings record exactly that input
	sort.SliceStable(inputs, func(i, j int) bool {
		if len(inputs[i]) != len(inputs[j]) {
			return len(inputs[i]) < len(inputs[j])
		}
		return inputs[i] < inputs[j]
	})
	res, err := e.runPegHarness(inputs)
	if d := os.Getenv("DSVC_PEG_DEBUG"); d != "" && res != nil {
		os.WriteFile(d, []byte(res.Raw), 0o644)
		cb, _ := json.MarshalIndent(inputs, "", " ")
		os.WriteFile(d+".cands.json", cb, 0o644)
	}
	for _, o := range obls {
		p := pathOf(o)
		structural := o.Goal.IsTrue()
		if err != nil {
			if !structural {
				o.Forced = "undecided"
				o.Output += "\nwitness search could not run: " + err.Error()
			}
			continue
		}
		ws := res.Witness[p]
		if len(ws) == 0 {
			if !structural {
				o.Forced = "undecided"
				if res.Reached[p] {
					o.Output += "\nthe element was observed failing after emission on the real parser, but on every such candidate the parse failed as a whole or compiled the same code as its matched text"
				} else if res.Instrumented {
					o.Output += "\nthe element was never observed failing after emission on the real parser (candidate inputs did not reach it)"
				}
				o.Output += fmt.Sprintf("\nwitness search: no input among the %d candidates derived from the grammar makes the real parser keep code for text it gave back", res.Inputs)
			}
			continue
		}
		sort.SliceStable(ws, func(i, j int) bool {
			if len(ws[i].Input) != len(ws[j].Input) {
				return len(ws[i].Input) < len(ws[j].Input)
			}
			return ws[i].Input < ws[j].Input
		})
		w := ws[0]
		var sb strings.Builder
		fmt.Fprintf(&sb, "input %q: Parse succeeds, matched %q\ncode compiled for the input:   %s\ncode compiled for the matched text alone: %s\nRun(input)   -> %s\nRun(matched) -> %s\n", w.Input, w.Matched, oneLine(w.CodeInput), oneLine(w.CodeMatched), w.RunInput, w.RunMatched)
		if structural {
			o.Goal = e.ts.False()
			o.Output = "the structural argument held, but the real parser was observed keeping code emitted before this element failed"
		}
		o.Forced = "failed"
		o.Replay = &ReplayResult{Confirmed: true, Log: sb.String(), Source: hsForReplay(w.Input)}
		o.Output += "\nwitness: " + strconv.Quote(w.Input)
		o.Witness = w.Input
	}
	e.Assumptions[fmt.Sprintf("grammar witness search: candidate inputs derived from the grammar (%d this run) are run on the real parser; an obligation without a witness is reported undecided, not proved", len(inputs))] = true
}

func hsForReplay(input string) string {
	return "// run with: DSVC_PEG_CANDS=<file containing " + strconv.Quote("["+strconv.Quote(input)+"]") + "> go test -overlay <roll.peg.go instrumented by dsvc> -run TestDsvcPegWitness\n" + pegHarnessSrc
}

func oneLine(s string) string {
	return strings.Join(strings.Fields(strings.ReplaceAll(s, "\n", " | ")), " ")
}
