package vc

import (
	"fmt"
	"go/ast"
	"go/types"
	"hash/fnv"
	"math/big"
	"sort"
	"strings"
)

// Value is a symbolic Go value.
type Value struct {
	T     types.Type
	Tm    *Term             // scalar (Int, Bool, Str, Flt, Any) or fixed array (SMT array)
	Sl    *SliceVal         // slice
	St    map[string]*Value // struct value
	Cl    *Closure          // function literal bound to a local
	Raw   bool              // pointer into a slice of invariant-bearing structs (see typeinv.go)
	RawC  *Term             // when Raw: the condition under which the pointer is raw (nil = always)
	Table *funcTable        // function value read from an immutable package-level table
	// Addr is set for struct values that are addressable views of heap cells (unused for plain values)
}

type SliceVal struct{ Ptr, Len, Cap *Term }

type funcTable struct {
	Global  *types.Var
	Idx     *Term
	Entries []*types.Func
}

type Closure struct {
	Lit *ast.FuncLit
}

type kind int

const (
	kScalar kind = iota
	kSlice
	kStruct
	kArray
	kFunc
	kOpaque
)

func (e *Engine) typeQual(p *types.Package) string {
	if p == e.P.Pkg.Types {
		return ""
	}
	return p.Name()
}

func (e *Engine) typeStr(t types.Type) string {
	return types.TypeString(t, e.typeQual)
}

// classify returns the representation kind and, for scalars, the SMT sort.
func (e *Engine) classify(t types.Type) (kind, Sort) {
	switch u := t.Underlying().(type) {
	case *types.Basic:
		info := u.Info()
		switch {
		case info&types.IsBoolean != 0:
			return kScalar, SBool
		case info&types.IsInteger != 0:
			return kScalar, SInt
		case info&types.IsFloat != 0, info&types.IsComplex != 0:
			return kScalar, SFlt
		case info&types.IsString != 0:
			return kScalar, SStr
		case u.Kind() == types.UnsafePointer:
			return kScalar, SInt
		case u.Kind() == types.UntypedNil:
			return kScalar, SInt
		}
		return kScalar, SInt
	case *types.Pointer, *types.Map, *types.Chan, *types.Signature:
		return kScalar, SInt
	case *types.Interface:
		return kScalar, SAny
	case *types.Slice:
		return kSlice, ""
	case *types.Struct:
		if isAtomicValue(t) {
			// sync/atomic.Value: a cell holding an interface value (sequential semantics, see syncmodel.go)
			return kScalar, SAny
		}
		if e.isOpaqueStruct(t) {
			return kScalar, SInt
		}
		return kStruct, ""
	case *types.Array:
		_, es := e.classify(u.Elem())
		if es == "" {
			return kScalar, SInt // unsupported element kind: opaque handle
		}
		return kArray, ArrSort(es)
	case *types.Tuple:
		return kOpaque, ""
	}
	return kScalar, SInt
}

func isAtomicValue(t types.Type) bool {
	n, ok := t.(*types.Named)
	return ok && n.Obj().Pkg() != nil && n.Obj().Pkg().Path() == "sync/atomic" && n.Obj().Name() == "Value"
}

// isOpaqueStruct: struct types declared outside the package are opaque handles (their fields are never accessed here).
func (e *Engine) isOpaqueStruct(t types.Type) bool {
	if n, ok := t.(*types.Named); ok {
		if n.Obj().Pkg() != nil && n.Obj().Pkg() != e.P.Pkg.Types {
			return true
		}
	}
	return false
}

func intRange(t types.Type) (lo, hi *big.Int, ok bool) {
	b, isB := t.Underlying().(*types.Basic)
	if !isB || b.Info()&types.IsInteger == 0 {
		return nil, nil, false
	}
	pow := func(n uint) *big.Int { return new(big.Int).Lsh(big.NewInt(1), n) }
	one := big.NewInt(1)
	switch b.Kind() {
	case types.Int8:
		return new(big.Int).Neg(pow(7)), new(big.Int).Sub(pow(7), one), true
	case types.Int16:
		return new(big.Int).Neg(pow(15)), new(big.Int).Sub(pow(15), one), true
	case types.Int32:
		return new(big.Int).Neg(pow(31)), new(big.Int).Sub(pow(31), one), true
	case types.Int, types.Int64, types.UntypedInt:
		return new(big.Int).Neg(pow(63)), new(big.Int).Sub(pow(63), one), true
	case types.Uint8:
		return big.NewInt(0), new(big.Int).Sub(pow(8), one), true
	case types.Uint16:
		return big.NewInt(0), new(big.Int).Sub(pow(16), one), true
	case types.Uint32:
		return big.NewInt(0), new(big.Int).Sub(pow(32), one), true
	case types.Uint, types.Uint64, types.Uintptr:
		return big.NewInt(0), new(big.Int).Sub(pow(64), one), true
	case types.UntypedRune:
		return new(big.Int).Neg(pow(31)), new(big.Int).Sub(pow(31), one), true
	}
	return nil, nil, false
}

func wrapFn(t types.Type) string {
	b, isB := t.Underlying().(*types.Basic)
	if !isB {
		return ""
	}
	switch b.Kind() {
	case types.Int8:
		return "wrap_i8"
	case types.Int16:
		return "wrap_i16"
	case types.Int32, types.UntypedRune:
		return "wrap_i32"
	case types.Int, types.Int64:
		return "wrap_i64"
	case types.Uint8:
		return "wrap_u8"
	case types.Uint16:
		return "wrap_u16"
	case types.Uint32:
		return "wrap_u32"
	case types.Uint, types.Uint64, types.Uintptr:
		return "wrap_u64"
	}
	return ""
}

func isUnsigned(t types.Type) bool {
	b, ok := t.Underlying().(*types.Basic)
	return ok && b.Info()&types.IsUnsigned != 0
}

// ---- state --------------------------------------------------------------------------------

type heapBase struct {
	id  int
	get func(key string, sort Sort) *Term
}

type State struct {
	vars     map[*types.Var]*Value
	heap     map[string]*Term
	base     *heapBase
	alloc    *Term
	pc       []*Term
	path     []*Term // branch conditions only (guards used when states are merged)
	dead     bool
	dirty    []*Term // addresses of invariant-bearing objects written since the last boundary
	dirtyTI  []*typeInvInfo
	known    map[int]bool // invariant instances already assumed
	quiet    bool         // spec evaluation inside binders: do not record facts
	fallthru bool
	label    string // case label of a split dispatch switch (obligation naming)
}

func (s *State) clone() *State {
	n := &State{vars: make(map[*types.Var]*Value, len(s.vars)), heap: make(map[string]*Term, len(s.heap)), base: s.base, alloc: s.alloc, dead: s.dead, quiet: s.quiet, label: s.label}
	for k, v := range s.vars {
		n.vars[k] = v
	}
	for k, v := range s.heap {
		n.heap[k] = v
	}
	n.pc = append([]*Term{}, s.pc...)
	n.path = append([]*Term{}, s.path...)
	n.dirty = append([]*Term{}, s.dirty...)
	n.dirtyTI = append([]*typeInvInfo{}, s.dirtyTI...)
	if s.known != nil {
		n.known = make(map[int]bool, len(s.known))
		for k := range s.known {
			n.known[k] = true
		}
	}
	return n
}

func (s *State) assume(t *Term) {
	if t.IsTrue() || s.quiet {
		return
	}
	if t.IsFalse() {
		s.dead = true
	}
	s.pc = append(s.pc, t)
}

// branch records a control-flow condition: a fact on this path and part of the merge guard.
func (s *State) branch(t *Term) {
	if t.IsTrue() {
		return
	}
	if t.IsFalse() {
		s.dead = true
	}
	s.pc = append(s.pc, t)
	s.path = append(s.path, t)
}

func (e *Engine) heapGet(s *State, key string, sort Sort) *Term {
	if h, ok := s.heap[key]; ok {
		return h
	}
	if strings.HasPrefix(key, "box.") {
		// boxed struct copies are immutable: their heaps are never havocked
		h := e.ts.Var("BOX0."+key, sort)
		s.heap[key] = h
		return h
	}
	h := s.base.get(key, sort)
	s.heap[key] = h
	return h
}

func (e *Engine) newBase(hint string) *heapBase {
	e.baseSeq++
	id := e.baseSeq
	name := fmt.Sprintf("H%d%s", id, hint)
	return &heapBase{id: id, get: func(key string, sort Sort) *Term {
		return e.ts.Var(name+"."+key, sort)
	}}
}

// havocAll forgets every heap.
func (e *Engine) havocAll(s *State) {
	keep := map[string]*Term{}
	for k, h := range s.heap {
		if strings.HasPrefix(k, "box.") {
			keep[k] = h
		}
	}
	s.heap = keep
	s.base = e.newBase("")
}

func (e *Engine) havocKey(s *State, key string, sort Sort) {
	s.heap[key] = e.ts.Fresh("H."+key, sort)
}

// merge joins states that forked from a common ancestor.
func (e *Engine) merge(states []*State) *State {
	var live []*State
	for _, s := range states {
		if s != nil && !s.dead {
			live = append(live, s)
		}
	}
	if len(live) == 0 {
		if len(states) > 0 && states[0] != nil {
			d := states[0].clone()
			d.dead = true
			return d
		}
		return &State{dead: true, vars: map[*types.Var]*Value{}, heap: map[string]*Term{}, base: e.newBase("dead")}
	}
	if len(live) == 1 {
		return live[0]
	}
	ts := e.ts
	// common prefixes of facts and of branch conditions
	pre := len(live[0].pc)
	ppre := len(live[0].path)
	for _, s := range live[1:] {
		k := 0
		for k < pre && k < len(s.pc) && s.pc[k] == live[0].pc[k] {
			k++
		}
		pre = k
		k = 0
		for k < ppre && k < len(s.path) && s.path[k] == live[0].path[k] {
			k++
		}
		ppre = k
	}
	guards := make([]*Term, len(live))
	for i, s := range live {
		guards[i] = ts.And(s.path[ppre:]...)
	}
	out := &State{vars: map[*types.Var]*Value{}, heap: map[string]*Term{}}
	out.pc = append([]*Term{}, live[0].pc[:pre]...)
	out.path = append([]*Term{}, live[0].path[:ppre]...)
	out.pc = append(out.pc, ts.Or(guards...))
	have := map[int]bool{}
	for _, f := range out.pc {
		have[f.id] = true
	}
	for i, s := range live {
		for _, f := range s.pc[pre:] {
			if have[f.id] {
				continue
			}
			g := ts.Implies(guards[i], f)
			if g.IsTrue() || have[g.id] {
				continue
			}
			have[g.id] = true
			out.pc = append(out.pc, g)
		}
	}
	// alloc
	out.alloc = live[len(live)-1].alloc
	for i := len(live) - 2; i >= 0; i-- {
		out.alloc = ts.Ite(guards[i], live[i].alloc, out.alloc)
	}
	// variables: those present in all states
	for v := range live[0].vars {
		vals := make([]*Value, len(live))
		ok := true
		for i, s := range live {
			vals[i] = s.vars[v]
			if vals[i] == nil {
				ok = false
				break
			}
		}
		if !ok {
			continue
		}
		out.vars[v] = e.mergeValues(guards, vals)
	}
	// heaps
	sameBase := true
	for _, s := range live[1:] {
		if s.base != live[0].base {
			sameBase = false
		}
	}
	keys := map[string]Sort{}
	for _, s := range live {
		for k, h := range s.heap {
			keys[k] = h.Sort
		}
	}
	var ks []string
	for k := range keys {
		ks = append(ks, k)
	}
	sort.Strings(ks)
	for _, k := range ks {
		var hs []*Term
		for _, s := range live {
			hs = append(hs, e.heapGet(s, k, keys[k]))
		}
		m := hs[len(hs)-1]
		for i := len(hs) - 2; i >= 0; i-- {
			m = ts.Ite(guards[i], hs[i], m)
		}
		out.heap[k] = m
	}
	if sameBase {
		out.base = live[0].base
	} else {
		snaps := make([]*State, len(live))
		for i, s := range live {
			snaps[i] = s.clone()
		}
		e.baseSeq++
		out.base = &heapBase{id: e.baseSeq, get: func(key string, sort Sort) *Term {
			m := e.heapGet(snaps[len(snaps)-1], key, sort)
			for i := len(snaps) - 2; i >= 0; i-- {
				m = ts.Ite(guards[i], e.heapGet(snaps[i], key, sort), m)
			}
			return m
		}}
	}
	// dirty: union
	seen := map[int]bool{}
	for _, s := range live {
		for i, d := range s.dirty {
			if !seen[d.id] {
				seen[d.id] = true
				out.dirty = append(out.dirty, d)
				out.dirtyTI = append(out.dirtyTI, s.dirtyTI[i])
			}
		}
	}
	return out
}

func (e *Engine) mergeValues(guards []*Term, vals []*Value) *Value {
	ts := e.ts
	first := vals[0]
	same := true
	for _, v := range vals[1:] {
		if v != first {
			same = false
		}
	}
	if same {
		return first
	}
	pick := func(get func(v *Value) *Term) *Term {
		m := get(vals[len(vals)-1])
		for i := len(vals) - 2; i >= 0; i-- {
			m = ts.Ite(guards[i], get(vals[i]), m)
		}
		return m
	}
	switch {
	case first.Cl != nil:
		return first
	case first.Sl != nil:
		for _, v := range vals {
			if v.Sl == nil {
				return first
			}
		}
		return &Value{T: first.T, Sl: &SliceVal{
			Ptr: pick(func(v *Value) *Term { return v.Sl.Ptr }),
			Len: pick(func(v *Value) *Term { return v.Sl.Len }),
			Cap: pick(func(v *Value) *Term { return v.Sl.Cap }),
		}}
	case first.St != nil:
		out := &Value{T: first.T, St: map[string]*Value{}}
		for f := range first.St {
			sub := make([]*Value, len(vals))
			for i, v := range vals {
				if v.St == nil || v.St[f] == nil {
					return first
				}
				sub[i] = v.St[f]
			}
			out.St[f] = e.mergeValues(guards, sub)
		}
		return out
	case first.Tm != nil:
		for _, v := range vals {
			if v.Tm == nil || v.Tm.Sort != first.Tm.Sort {
				return first
			}
		}
		raw := false
		allRaw := true
		for _, v := range vals {
			if v.Raw {
				raw = true
			} else {
				allRaw = false
			}
		}
		out := &Value{T: first.T, Tm: pick(func(v *Value) *Term { return v.Tm }), Raw: raw}
		if raw && !allRaw {
			// raw only on some of the merged paths: remember the condition
			var cs []*Term
			for i, v := range vals {
				if v.Raw {
					c := guards[i]
					if v.RawC != nil {
						c = ts.And(c, v.RawC)
					}
					cs = append(cs, c)
				}
			}
			out.RawC = ts.Or(cs...)
		} else if raw {
			var cs []*Term
			all := true
			for i, v := range vals {
				if v.RawC == nil {
					all = false
					break
				}
				cs = append(cs, ts.And(guards[i], v.RawC))
			}
			if all {
				out.RawC = ts.Or(cs...)
			}
		}
		return out
	}
	return first
}

// ---- heap keys ----------------------------------------------------------------------------

// structName is the canonical name of a struct type for heap keys.
func (e *Engine) structName(t types.Type) string {
	if n, ok := t.(*types.Named); ok {
		return n.Obj().Name()
	}
	if a, ok := t.(*types.Alias); ok {
		return e.structName(types.Unalias(a))
	}
	s := e.typeStr(t)
	if name, ok := e.anonStructs[s]; ok {
		return name
	}
	// a name derived from the type itself (not from the order in which anonymous structs are met): symbol names
	// influence solver heuristics, and run-to-run differences made one obligation flaky
	h := fnv.New32a()
	h.Write([]byte(s))
	name := fmt.Sprintf("anon%08x", h.Sum32())
	e.anonStructs[s] = name
	return name
}

// elemKey is the heap key for a scalar cell of type t reached through *t or []t.
func (e *Engine) elemKey(t types.Type) string {
	return "elem." + strings.ReplaceAll(e.typeStr(t), " ", "")
}

func structOf(t types.Type) *types.Struct {
	if p, ok := t.Underlying().(*types.Pointer); ok {
		t = p.Elem()
	}
	s, _ := t.Underlying().(*types.Struct)
	return s
}

// ---- type tags for interface values ---------------------------------------------------------

func (e *Engine) tagOf(t types.Type) int {
	s := e.typeStr(t)
	if id, ok := e.tags[s]; ok {
		return id
	}
	id := len(e.tags) + 1
	e.tags[s] = id
	e.tagNames[id] = s
	return id
}

// ---- nested structs of the same type inside one object ---------------------------------------------------------
//
// A struct-typed field lives at its owner's address (offset-0 rule) and its fields are keyed by the nested struct's
// type ("position.line").  That identifies two nested structs of the same type inside one owner (parser.pt.position
// and parser.maxFailPos are both `position`): a write to one would be read back from the other.  Where an owner has
// the same struct type under two of its fields, every access through those fields is keyed with the path from the
// owner: "parser.maxFailPos~position.line".  Write sets (effects, assigns) name the unqualified key and cover all
// copies (matchKey strips the qualifier).
const nestSep = "~"

// computeAmbiguous finds the (owner, field) pairs that need qualification.
func (e *Engine) computeAmbiguous() {
	e.ambiguous = map[string]bool{}
	sc := e.P.Pkg.Types.Scope()
	var nested func(t types.Type, out map[string]int, depth int)
	nested = func(t types.Type, out map[string]int, depth int) {
		st, ok := t.Underlying().(*types.Struct)
		if !ok || depth > 6 || e.isOpaqueStruct(t) || isAtomicValue(t) {
			return
		}
		out[e.structName(t)]++
		for i := 0; i < st.NumFields(); i++ {
			nested(st.Field(i).Type(), out, depth+1)
		}
	}
	for _, name := range sc.Names() {
		tn, ok := sc.Lookup(name).(*types.TypeName)
		if !ok {
			continue
		}
		st, ok := tn.Type().Underlying().(*types.Struct)
		if !ok {
			continue
		}
		total := map[string]int{}
		per := make([]map[string]int, st.NumFields())
		for i := 0; i < st.NumFields(); i++ {
			per[i] = map[string]int{}
			nested(st.Field(i).Type(), per[i], 0)
			for k, v := range per[i] {
				total[k] += v
			}
		}
		for i := 0; i < st.NumFields(); i++ {
			for k := range per[i] {
				if total[k] > 1 {
					e.ambiguous[e.structName(tn.Type())+"."+st.Field(i).Name()] = true
				}
			}
		}
	}
}

// nestPrefix: the qualifier for the fields of the struct stored under fullKey.
func (e *Engine) nestPrefix(fullKey string) string {
	if i := strings.LastIndex(fullKey, nestSep); i >= 0 {
		return fullKey[:i+len(nestSep)]
	}
	if e.ambiguous[fullKey] {
		return fullKey + nestSep
	}
	return ""
}

// baseKey strips the qualifier.
func baseKey(k string) string {
	if i := strings.LastIndex(k, nestSep); i >= 0 {
		return k[i+len(nestSep):]
	}
	return k
}
