package vc

import (
	"fmt"
	"go/ast"
	"go/token"
	"go/types"
)

func (fx *fctx) execBlock(st *State, list []ast.Stmt) *State {
	for _, s := range list {
		if st.dead {
			return st
		}
		st = fx.exec(st, s)
	}
	return st
}

func (fx *fctx) exec(st *State, s ast.Stmt) *State {
	e := fx.e
	ts := e.ts
	switch s := s.(type) {
	case *ast.BlockStmt:
		return fx.execBlock(st, s.List)
	case *ast.EmptyStmt:
		return st
	case *ast.ExprStmt:
		if ce, ok := s.X.(*ast.CallExpr); ok {
			fx.evalCall(st, ce)
		} else {
			fx.eval(st, s.X)
		}
		return st
	case *ast.DeclStmt:
		gd := s.Decl.(*ast.GenDecl)
		if gd.Tok != token.VAR {
			return st
		}
		for _, sp := range gd.Specs {
			vs := sp.(*ast.ValueSpec)
			if len(vs.Values) == 1 && len(vs.Names) > 1 {
				vals := fx.evalMulti(st, vs.Values[0], len(vs.Names))
				for i, n := range vs.Names {
					if v, ok := e.P.Info.Defs[n].(*types.Var); ok && n.Name != "_" {
						fx.bindVar(st, v, vals[i])
					}
				}
				continue
			}
			for i, n := range vs.Names {
				v, ok := e.P.Info.Defs[n].(*types.Var)
				if !ok || n.Name == "_" {
					if i < len(vs.Values) {
						fx.eval(st, vs.Values[i])
					}
					continue
				}
				var val *Value
				if i < len(vs.Values) {
					val = fx.eval(st, vs.Values[i])
				} else {
					val = e.zeroValue(v.Type())
				}
				fx.bindVar(st, v, val)
			}
		}
		return st
	case *ast.AssignStmt:
		return fx.execAssign(st, s)
	case *ast.IncDecStmt:
		lv := fx.evalLval(st, s.X)
		cur := fx.readLval(st, lv, s.X)
		one := ts.Int(1)
		var nv *Term
		if s.Tok == token.INC {
			nv = ts.Add(cur.Tm, one)
		} else {
			nv = ts.Sub(cur.Tm, one)
		}
		fx.assign(st, lv, &Value{T: lv.t, Tm: fx.wrap(nv, lv.t)}, s)
		return st
	case *ast.IfStmt:
		if s.Init != nil {
			st = fx.exec(st, s.Init)
			if st.dead {
				return st
			}
		}
		c := fx.evalBool(st, s.Cond)
		s1 := st.clone()
		s1.branch(c)
		s2 := st.clone()
		s2.branch(ts.Not(c))
		if !s1.dead {
			s1 = fx.execBlock(s1, s.Body.List)
		}
		if s.Else != nil && !s2.dead {
			s2 = fx.exec(s2, s.Else)
		}
		fx.settleDirty([]*State{s1, s2}, s)
		return e.merge([]*State{s1, s2})
	case *ast.ReturnStmt:
		return fx.execReturn(st, s)
	case *ast.ForStmt:
		return fx.execFor(st, s)
	case *ast.RangeStmt:
		return fx.execRange(st, s)
	case *ast.SwitchStmt:
		return fx.execSwitch(st, s)
	case *ast.TypeSwitchStmt:
		e.unsup(s, "type switch")
	case *ast.BranchStmt:
		switch s.Tok {
		case token.BREAK, token.CONTINUE:
			label := ""
			if s.Label != nil {
				label = s.Label.Name
			}
			for i := len(fx.jumps) - 1; i >= 0; i-- {
				jf := fx.jumps[i]
				if label != "" && jf.label != label {
					continue
				}
				if s.Tok == token.CONTINUE && !jf.isLoop {
					continue
				}
				if s.Tok == token.BREAK {
					jf.breaks = append(jf.breaks, st)
				} else {
					jf.conts = append(jf.conts, st)
				}
				d := st.clone()
				d.dead = true
				return d
			}
			e.unsup(s, "break/continue without target")
		case token.FALLTHROUGH:
			// handled by execSwitch (marks state)
			st.fallthru = true
			return st
		}
		e.unsup(s, "branch statement %s", s.Tok)
	case *ast.LabeledStmt:
		fx.pendingLabel = s.Label.Name
		return fx.exec(st, s.Stmt)
	case *ast.DeferStmt:
		if len(fx.retFrames) == 0 {
			e.unsup(s, "defer outside function frame")
		}
		fr := fx.retFrames[len(fx.retFrames)-1]
		fr.defers = append(fr.defers, s.Call)
		return st
	case *ast.GoStmt:
		e.unsup(s, "go statement")
	}
	e.unsup(s, "unsupported statement %T", s)
	return st
}

func (fx *fctx) evalMulti(st *State, x ast.Expr, n int) []*Value {
	e := fx.e
	ts := e.ts
	switch y := x.(type) {
	case *ast.ParenExpr:
		return fx.evalMulti(st, y.X, n)
	case *ast.CallExpr:
		vals := fx.evalCall(st, y)
		if len(vals) != n {
			e.unsup(x, "call returns %d values, want %d", len(vals), n)
		}
		return vals
	case *ast.TypeAssertExpr:
		if n == 2 {
			a := fx.eval(st, y.X)
			t := e.P.Info.TypeOf(y.Type)
			if _, isI := t.Underlying().(*types.Interface); isI {
				ok := ts.Fresh("assertok", SBool)
				return []*Value{{T: t, Tm: a.Tm}, {T: types.Typ[types.Bool], Tm: ok}}
			}
			okT := e.hasDynType(a.Tm, t)
			// value is the zero value when the assertion fails
			s1 := st.clone()
			s1.quiet = true
			got := e.unbox(s1, a.Tm, t)
			zero := e.zeroValue(t)
			val := e.mergeValues([]*Term{okT, ts.Not(okT)}, []*Value{got, zero})
			val.T = t
			e.assumeType(st, val) // type-level facts hold for the unboxed value and for the zero value alike
			return []*Value{val, {T: types.Typ[types.Bool], Tm: okT}}
		}
	case *ast.IndexExpr:
		if n == 2 {
			bt := e.P.Info.TypeOf(y.X)
			if mt := e.mapModelled(bt); mt != nil {
				h := e.mapHeapsOf(mt)
				m := fx.eval(st, y.X)
				k := fx.eval(st, y.Index)
				okT := e.mapHas(st, h, m.Tm, k.Tm)
				val := &Value{T: mt.Elem(), Tm: ts.Ite(okT, e.mapGet(st, h, m.Tm, k.Tm), e.zeroValue(mt.Elem()).Tm)}
				e.assumeType(st, val)
				return []*Value{val, {T: types.Typ[types.Bool], Tm: okT}}
			}
			if m, ok := bt.Underlying().(*types.Map); ok {
				fx.eval(st, y.X)
				fx.eval(st, y.Index)
				okT := ts.Fresh("mapok", SBool)
				v := e.havocValue(st, m.Elem(), "mapval")
				zero := e.zeroValue(m.Elem())
				val := e.mergeValues([]*Term{okT, ts.Not(okT)}, []*Value{v, zero})
				val.T = m.Elem()
				// values of immutable package-level maps satisfy their declared `mapvals` facts when present
				if g := fx.mapValsFact(st, y.X, v); g != nil {
					st.assume(ts.Implies(okT, g))
				}
				// values stored in maps satisfy their type invariants
				s1 := st.clone()
				s1.assume(okT)
				fx.onRead(s1, v, y)
				for _, f := range s1.pc[len(st.pc)+1:] {
					st.assume(ts.Implies(okT, f))
				}
				return []*Value{val, {T: types.Typ[types.Bool], Tm: okT}}
			}
		}
	}
	e.unsup(x, "multi-value expression")
	return nil
}

func (fx *fctx) readLval(st *State, lv *lval, n ast.Node) *Value {
	e := fx.e
	if lv.blank {
		e.unsup(n, "read of blank")
	}
	if lv.addr != nil {
		return fx.loadLval(st, lv)
	}
	cur := st.vars[lv.v]
	if cur == nil {
		e.unsup(n, "variable %s has no value", lv.v.Name())
	}
	for _, p := range lv.path {
		cur = cur.St[p]
	}
	if lv.aidx != nil {
		return &Value{T: lv.t, Tm: e.ts.Select(cur.Tm, lv.aidx)}
	}
	return cur
}

func (fx *fctx) execAssign(st *State, s *ast.AssignStmt) *State {
	e := fx.e
	info := e.P.Info
	if s.Tok != token.ASSIGN && s.Tok != token.DEFINE {
		// op-assignment
		var op token.Token
		switch s.Tok {
		case token.ADD_ASSIGN:
			op = token.ADD
		case token.SUB_ASSIGN:
			op = token.SUB
		case token.MUL_ASSIGN:
			op = token.MUL
		case token.QUO_ASSIGN:
			op = token.QUO
		case token.REM_ASSIGN:
			op = token.REM
		case token.AND_ASSIGN:
			op = token.AND
		case token.OR_ASSIGN:
			op = token.OR
		case token.XOR_ASSIGN:
			op = token.XOR
		case token.SHL_ASSIGN:
			op = token.SHL
		case token.SHR_ASSIGN:
			op = token.SHR
		default:
			e.unsup(s, "assignment operator %s", s.Tok)
		}
		lv := fx.evalLval(st, s.Lhs[0])
		cur := fx.readLval(st, lv, s.Lhs[0])
		rhs := fx.eval(st, s.Rhs[0])
		fx.assign(st, lv, fx.binop(st, op, cur, rhs, lv.t, s), s)
		return st
	}
	var vals []*Value
	if len(s.Rhs) == 1 && len(s.Lhs) > 1 {
		vals = fx.evalMulti(st, s.Rhs[0], len(s.Lhs))
	} else {
		// evaluate lvalue operands first is unnecessary for the supported subset; rhs first
		for _, r := range s.Rhs {
			vals = append(vals, fx.eval(st, r))
		}
	}
	for i, l := range s.Lhs {
		if s.Tok == token.DEFINE {
			if id, ok := l.(*ast.Ident); ok {
				if id.Name == "_" {
					continue
				}
				if v, ok := info.Defs[id].(*types.Var); ok && v != nil {
					if vals[i].Cl != nil {
						st.vars[v] = vals[i]
					} else {
						fx.bindVar(st, v, vals[i])
					}
					continue
				}
			}
		}
		lv := fx.evalLval(st, l)
		if vals[i].Cl != nil && lv.v != nil && len(lv.path) == 0 {
			st.vars[lv.v] = vals[i]
			continue
		}
		fx.assign(st, lv, vals[i], s)
	}
	return st
}

func (fx *fctx) execReturn(st *State, s *ast.ReturnStmt) *State {
	e := fx.e
	if len(fx.retFrames) == 0 {
		e.unsup(s, "return outside frame")
	}
	fr := fx.retFrames[len(fx.retFrames)-1]
	var vals []*Value
	if len(s.Results) == 0 {
		for _, v := range fr.results {
			vals = append(vals, fx.readVar(st, v))
		}
	} else if len(s.Results) == 1 && fr.nres > 1 {
		vals = fx.evalMulti(st, s.Results[0], fr.nres)
	} else {
		for i, r := range s.Results {
			v := fx.eval(st, r)
			if i < len(fr.resTypes) {
				v = fx.convertForAssign(st, v, fr.resTypes[i])
			}
			vals = append(vals, v)
		}
	}
	if st.dead {
		return st
	}
	// named results are assigned before deferred functions run
	for i, v := range fr.results {
		if i < len(vals) {
			lv := &lval{v: v, t: v.Type()}
			if fx.boxed[v] {
				lv = &lval{addr: st.vars[v].Tm, t: v.Type()}
			}
			fx.assign(st, lv, vals[i], s)
		}
	}
	// deferred calls (LIFO)
	for i := len(fr.defers) - 1; i >= 0; i-- {
		fx.runDeferred(st, fr.defers[i])
	}
	fr.rets = append(fr.rets, &retState{st: st, vals: vals, pos: s.Pos(), inPeel: fx.inPeel > 0})
	d := st.clone()
	d.dead = true
	return d
}

func (fx *fctx) runDeferred(st *State, call *ast.CallExpr) {
	if st.dead {
		return
	}
	saved := fx.retFrames
	fx.evalCall(st, call)
	fx.retFrames = saved
}

// ---- loops --------------------------------------------------------------------------------

// assignedIn collects local variables assigned inside node n (closure bodies called inside are included
// because closures are declared in the enclosing function and ast.Inspect does not follow calls:
// callers pass the closure literals reachable from n).
func (fx *fctx) assignedIn(nodes []ast.Node) map[*types.Var]bool {
	info := fx.e.P.Info
	out := map[*types.Var]bool{}
	seenLit := map[*ast.FuncLit]bool{}
	var visit func(n ast.Node)
	var mark func(x ast.Expr)
	mark = func(x ast.Expr) {
		switch y := x.(type) {
		case *ast.Ident:
			if v, ok := info.ObjectOf(y).(*types.Var); ok && !fx.isGlobal(v) {
				out[v] = true
			}
		case *ast.ParenExpr:
			mark(y.X)
		case *ast.SelectorExpr:
			// a field of a struct-valued local modifies the local; through a pointer it is a heap write
			if t := info.TypeOf(y.X); t != nil {
				if _, isStruct := t.Underlying().(*types.Struct); isStruct {
					mark(y.X)
				}
			}
		case *ast.IndexExpr:
			if t := info.TypeOf(y.X); t != nil {
				if _, isArr := t.Underlying().(*types.Array); isArr {
					mark(y.X)
				}
			}
		}
	}
	visit = func(n ast.Node) {
		ast.Inspect(n, func(nd ast.Node) bool {
			switch u := nd.(type) {
			case *ast.AssignStmt:
				for _, l := range u.Lhs {
					mark(l)
				}
			case *ast.IncDecStmt:
				mark(u.X)
			case *ast.RangeStmt:
				if u.Key != nil {
					mark(u.Key)
				}
				if u.Value != nil {
					mark(u.Value)
				}
			case *ast.DeclStmt:
				if gd, ok := u.Decl.(*ast.GenDecl); ok {
					for _, sp := range gd.Specs {
						if vs, ok := sp.(*ast.ValueSpec); ok {
							for _, nm := range vs.Names {
								if v, ok := info.Defs[nm].(*types.Var); ok {
									out[v] = true
								}
							}
						}
					}
				}
			case *ast.CallExpr:
				// calls of local closures: include their bodies
				if id, ok := u.Fun.(*ast.Ident); ok {
					if v, ok := info.Uses[id].(*types.Var); ok {
						if lit := fx.closureLits[v]; lit != nil && !seenLit[lit] {
							seenLit[lit] = true
							visit(lit.Body)
						}
					}
				}
				// &x passed to a call: x may be modified (boxed variables live in the heap anyway)
			}
			return true
		})
	}
	for _, n := range nodes {
		if n != nil {
			visit(n)
		}
	}
	return out
}

// writesIn computes the heap write set of a loop body (direct writes and callees' transitive writes).
func (fx *fctx) writesIn(nodes []ast.Node) (keys map[string]bool, top bool, allocs bool) {
	e := fx.e
	tmp := &FuncInfo{Key: fx.fi.Key + "/loop", Decl: &ast.FuncDecl{Body: &ast.BlockStmt{}}}
	for _, n := range nodes {
		if s, ok := n.(ast.Stmt); ok && s != nil {
			tmp.Decl.Body.List = append(tmp.Decl.Body.List, s)
		} else if x, ok := n.(ast.Expr); ok && x != nil {
			tmp.Decl.Body.List = append(tmp.Decl.Body.List, &ast.ExprStmt{X: x})
		}
	}
	// include bodies of closures called inside
	info := e.P.Info
	seen := map[*ast.FuncLit]bool{}
	var addLits func(n ast.Node)
	addLits = func(n ast.Node) {
		ast.Inspect(n, func(nd ast.Node) bool {
			if ce, ok := nd.(*ast.CallExpr); ok {
				if id, ok := ce.Fun.(*ast.Ident); ok {
					if v, ok := info.Uses[id].(*types.Var); ok {
						if lit := fx.closureLits[v]; lit != nil && !seen[lit] {
							seen[lit] = true
							tmp.Decl.Body.List = append(tmp.Decl.Body.List, lit.Body)
							addLits(lit.Body)
						}
					}
				}
			}
			return true
		})
	}
	for _, n := range nodes {
		if n != nil {
			addLits(n)
		}
	}
	// closure calls must not count as dynamic calls: reuse the enclosing function for isLocalClosure
	tmp.Decl.Name = fx.fi.Decl.Name
	fe := e.localEffectsWith(tmp, fx.fi)
	keys = map[string]bool{}
	for k := range fe.Writes {
		keys[k] = true
	}
	top = fe.Top
	allocs = fe.Allocates
	for c := range fe.Callees {
		cfi := e.P.FuncByObj[c]
		var con *Contract
		if cfi != nil {
			con = e.P.CF.Contracts[cfi.Key]
		}
		if con != nil && con.HasAssigns && !con.Inline {
			for _, w := range con.Assigns {
				if w == "*" {
					top = true
				}
				keys[w] = true
			}
			allocs = true
			continue
		}
		if t := e.effects.Trans[c]; t != nil {
			for k := range t.Writes {
				keys[k] = true
			}
			if t.Top {
				top = true
			}
			if t.Allocates {
				allocs = true
			}
		} else {
			top = true
		}
	}
	// boxed locals assigned in the loop live in elem heaps
	for v := range fx.assignedIn(nodes) {
		if fx.boxed[v] {
			for _, k := range e.writeKeys("", v.Type()) {
				keys[k] = true
			}
		}
	}
	return
}

func (e *Engine) localEffectsWith(tmp *FuncInfo, owner *FuncInfo) *FuncEffects {
	// localEffects uses fi only for isLocalClosure lookups; give it the owner's body for that purpose
	saved := tmp.Decl.Body
	fe := e.localEffectsOwner(tmp, owner)
	tmp.Decl.Body = saved
	return fe
}

func (fx *fctx) loopContract(s ast.Stmt) (*LoopContract, int) {
	n := 0
	for i, l := range fx.fi.Loops {
		if l == s {
			n = i + 1
		}
	}
	if n == 0 {
		// loop of an inlined function: look it up there
		for _, fi := range fx.e.P.Funcs {
			for i, l := range fi.Loops {
				if l == s {
					if c := fx.e.P.CF.Contracts[fi.Key]; c != nil {
						return c.Loops[i+1], -(i + 1)
					}
					return nil, -(i + 1)
				}
			}
		}
		return nil, 0
	}
	if fx.con == nil {
		return nil, n
	}
	return fx.con.Loops[n], n
}

// execLoop is the common cut-point treatment:
// establish invariant; havoc modified state; assume invariant; run cond+body+post; check preservation; exit.
func (fx *fctx) execLoop(st *State, s ast.Stmt, cond func(*State) *Term, body func(*State) *State, post func(*State) *State, nodes []ast.Node, hiddenIdx *types.Var) *State {
	return fx.execLoopH(st, s, cond, body, post, nodes, hiddenIdx, nil)
}

// execPeeled: a loop declared `peel` runs at most once: the body is executed once from the state before the loop
// (nothing is havocked, no invariant is needed) and the obligation is that the back edge cannot be taken.
// Typical: compare-and-swap retry loops, which never retry in a sequential execution.
func (fx *fctx) execPeeled(st *State, s ast.Stmt, cond func(*State) *Term, body func(*State) *State, post func(*State) *State, tag string, ord int) *State {
	e := fx.e
	ts := e.ts
	head := st.clone()
	c := cond(head)
	bodySt := head.clone()
	bodySt.branch(c)
	exitSt := head.clone()
	exitSt.branch(ts.Not(c))
	jf := &jumpFrame{isLoop: true, label: fx.pendingLabel}
	fx.pendingLabel = ""
	fx.jumps = append(fx.jumps, jf)
	fx.runHooks(bodySt, "loopbegin", ord, "", s, nil)
	fx.inPeel++
	end := body(bodySt)
	fx.inPeel--
	fx.jumps = fx.jumps[:len(fx.jumps)-1]
	for _, back := range append([]*State{end}, jf.conts...) {
		if back == nil || back.dead {
			continue
		}
		if post != nil {
			back = post(back)
		}
		if back.dead {
			continue
		}
		// a second evaluation of the condition that fails is a normal exit
		c2 := cond(back)
		again := back.clone()
		again.branch(c2)
		fx.assert(again, tag+"/peel", "no-second-iteration", ts.False(), s, fx.props, "a loop declared `peel` never starts a second iteration")
		out := back.clone()
		out.branch(ts.Not(c2))
		jf.breaks = append(jf.breaks, out)
	}
	exits := append([]*State{exitSt}, jf.breaks...)
	out := e.merge(exits)
	if !out.dead {
		fx.runHooks(out, "loopexit", ord, "", s, nil)
	}
	return out
}

func (fx *fctx) execLoopH(st *State, s ast.Stmt, cond func(*State) *Term, body func(*State) *State, post func(*State) *State, nodes []ast.Node, hiddenIdx *types.Var, extraHavoc func(*State)) *State {
	e := fx.e
	ts := e.ts
	lc, ord := fx.loopContract(s)
	tag := fmt.Sprintf("loop%d", ord)
	if ord < 0 {
		tag = fmt.Sprintf("inl.loop%d", -ord)
	}
	if lc != nil && lc.Peel {
		return fx.execPeeled(st, s, cond, body, post, tag, ord)
	}
	pos := s.Pos()
	if fs, ok := s.(*ast.ForStmt); ok {
		pos = fs.Body.Lbrace
	} else if rs, ok := s.(*ast.RangeStmt); ok {
		pos = rs.Body.Lbrace
	}
	bindAt := func(stt *State) map[string]*Value {
		b := fx.visibleBindings(stt, pos)
		if hiddenIdx != nil {
			if v, ok := stt.vars[hiddenIdx]; ok {
				b["rangeIdx"] = v
			}
		}
		return b
	}
	preSnap := st.clone()
	fx.loopPre = append(fx.loopPre, preSnap)
	defer func() { fx.loopPre = fx.loopPre[:len(fx.loopPre)-1] }()
	evalInv := func(stt *State, cl *Clause) *Term {
		return fx.evalClause(stt, fx.entry, cl, bindAt(stt))
	}
	// 1. establish
	if lc != nil {
		for _, cl := range lc.Invariants {
			g := evalInv(st, cl)
			fx.assert(st, tag+"/inv-init", fmt.Sprint(cl.Ord), g, s, propsOr(cl.Props, fx.props), "invariant holds on entry: "+cl.Text)
		}
	}
	// objects already being modified when the loop is reached stay "dirty" through the loop (their invariant is
	// re-established at the boundary that follows); objects the body dirties are settled at the back edge
	preDirty := map[int]bool{}
	for _, d := range st.dirty {
		preDirty[d.id] = true
	}
	// 2. havoc
	assigned := fx.assignedIn(nodes)
	keys, top, allocs := fx.writesIn(nodes)
	if lc != nil {
		for _, w := range lc.Assigns {
			if w == "*" {
				top = true
			}
			keys[w] = true
		}
	}
	pre := st.clone()
	h := st.clone()
	if allocs || top {
		// the allocation frontier at the loop head is arbitrary but not below the one before the loop;
		// havocked slices/pointers are bounded by the new frontier
		na := ts.Fresh("alloc", SInt)
		h.assume(ts.Ge(na, pre.alloc))
		h.alloc = na
	}
	for v := range assigned {
		cur, ok := h.vars[v]
		if !ok || cur.Cl != nil {
			continue
		}
		if fx.boxed[v] {
			continue // address is stable; contents are in the heap
		}
		h.vars[v] = e.havocValue(h, v.Type(), v.Name())
	}
	if hiddenIdx != nil {
		h.vars[hiddenIdx] = e.havocValue(h, hiddenIdx.Type(), "rangeidx")
	}
	if extraHavoc != nil {
		extraHavoc(h)
	}
	// ghost variables assigned by hooks located inside the loop
	for _, name := range fx.ghostAssignedIn(s) {
		if gv := fx.ghostVar[name]; gv != nil {
			h.vars[gv] = e.havocValue(h, gv.Type(), "ghost."+name)
		}
	}
	if top {
		e.havocAll(h)
	} else if len(keys) > 0 {
		e.havocMatching(h, func(k string) bool {
			for w := range keys {
				if matchKey(k, w) {
					return true
				}
			}
			return false
		})
	}
	// a counter that is initialised by the for clause, tested with `i < E`, incremented by the post statement
	// and not assigned in the body never goes below its initial value (no wrap: the increment runs only when
	// i < E): a syntactic loop fact, so that zero-annotation functions get their index lower bounds
	if fs, ok := s.(*ast.ForStmt); ok {
		if v := fx.monotoneCounter(fs); v != nil {
			if pv, ok1 := pre.vars[v]; ok1 && pv.Tm != nil {
				if hv, ok2 := h.vars[v]; ok2 && hv.Tm != nil && hv.Tm.Sort == SInt {
					h.assume(ts.Ge(hv.Tm, pv.Tm))
				}
			}
		}
	}
	// re-assume type facts for havocked slices relative to new alloc done in havocValue
	if lc != nil {
		for _, cl := range lc.Invariants {
			h.assume(evalInv(h, cl))
		}
	}
	fx.boundaryAssume(h, s)
	if c := fx.assert(h, "vacuity", tag+"-head", ts.False(), s, nil, "canary: loop head is reachable under its invariant (must be refutable)"); c != nil {
		c.Canary = true
	}
	// 3. condition
	head := h.clone()
	var dec0 *Term
	if lc != nil && lc.Decreases != nil {
		dec0 = fx.evalClauseValue(head, fx.entry, lc.Decreases, bindAt(head)).Tm
	}
	c := cond(head)
	bodySt := head.clone()
	bodySt.branch(c)
	exitSt := head.clone()
	exitSt.branch(ts.Not(c))
	jf := &jumpFrame{isLoop: true, label: fx.pendingLabel}
	fx.pendingLabel = ""
	fx.jumps = append(fx.jumps, jf)
	fx.runHooks(bodySt, "loopbegin", ord, "", s, nil)
	end := body(bodySt)
	fx.jumps = fx.jumps[:len(fx.jumps)-1]
	var backs []*State
	splitMode := false
	for _, c := range jf.conts {
		if c.label != "" {
			splitMode = true
		}
	}
	if splitMode {
		backs = append(backs, end)
		backs = append(backs, jf.conts...)
	} else {
		backs = []*State{e.merge(append([]*State{end}, jf.conts...))}
	}
	for _, back := range backs {
		if back == nil || back.dead {
			continue
		}
		savedLabel := fx.caseLabel
		if back.label != "" {
			fx.caseLabel = back.label
		}
		fx.runHooks(back, "loopend", ord, "", s, nil)
		if post != nil {
			back = post(back)
		}
		// 4. preservation
		if !back.dead {
			if lc != nil {
				for _, cl := range lc.Invariants {
					g := evalInv(back, cl)
					fx.assert(back, tag+"/inv-pres", fmt.Sprint(cl.Ord), g, s, propsOr(cl.Props, fx.props), "invariant preserved: "+cl.Text)
				}
				if lc.Decreases != nil {
					dec1 := fx.evalClauseValue(back, fx.entry, lc.Decreases, bindAt(back)).Tm
					fx.assert(back, tag+"/decreases", "", ts.And(ts.Ge(dec0, ts.Int(0)), ts.Lt(dec1, dec0)), s, propsOr(lc.Decreases.Props, fx.props), "variant decreases and is bounded: "+lc.Decreases.Text)
				}
			}
			var keepD, chkD []*Term
			var keepT, chkT []*typeInvInfo
			for i, d := range back.dirty {
				if preDirty[d.id] {
					keepD = append(keepD, d)
					keepT = append(keepT, back.dirtyTI[i])
				} else {
					chkD = append(chkD, d)
					chkT = append(chkT, back.dirtyTI[i])
				}
			}
			back.dirty, back.dirtyTI = chkD, chkT
			fx.boundaryCheck(back, s, tag+"/head-pres")
			back.dirty, back.dirtyTI = keepD, keepT
		}
		fx.caseLabel = savedLabel
	}
	// 5. exit
	exits := append([]*State{exitSt}, jf.breaks...)
	out := e.merge(exits)
	if !out.dead {
		fx.runHooks(out, "loopexit", ord, "", s, nil)
	}
	return out
}

func (fx *fctx) execFor(st *State, s *ast.ForStmt) *State {
	e := fx.e
	if s.Init != nil {
		st = fx.exec(st, s.Init)
		if st.dead {
			return st
		}
	}
	nodes := []ast.Node{s.Body}
	if s.Cond != nil {
		nodes = append(nodes, s.Cond)
	}
	if s.Post != nil {
		nodes = append(nodes, s.Post)
	}
	cond := func(h *State) *Term {
		if s.Cond == nil {
			return e.ts.True()
		}
		return fx.evalBool(h, s.Cond)
	}
	body := func(b *State) *State {
		saved := fx.tailSwitch
		if n := len(s.Body.List); n > 0 {
			if sw, ok := s.Body.List[n-1].(*ast.SwitchStmt); ok && fx.isDispatchSwitch(sw) {
				fx.tailSwitch = sw
			}
		}
		r := fx.execBlock(b, s.Body.List)
		fx.tailSwitch = saved
		return r
	}
	var post func(*State) *State
	if s.Post != nil {
		post = func(b *State) *State { return fx.exec(b, s.Post) }
	}
	return fx.execLoop(st, s, cond, body, post, nodes, nil)
}

func (fx *fctx) execRange(st *State, s *ast.RangeStmt) *State {
	e := fx.e
	ts := e.ts
	info := e.P.Info
	xt := info.TypeOf(s.X)
	idxVar := types.NewVar(s.Pos(), nil, "$rangeidx", types.Typ[types.Int])
	var keyVar, valVar *types.Var
	if id, ok := s.Key.(*ast.Ident); ok && id.Name != "_" {
		if s.Tok == token.DEFINE {
			keyVar, _ = info.Defs[id].(*types.Var)
		} else {
			keyVar, _ = info.Uses[id].(*types.Var)
		}
	}
	if id, ok := s.Value.(*ast.Ident); ok && id.Name != "_" {
		if s.Tok == token.DEFINE {
			valVar, _ = info.Defs[id].(*types.Var)
		} else {
			valVar, _ = info.Uses[id].(*types.Var)
		}
	}
	nodes := []ast.Node{s.Body}
	switch u := xt.Underlying().(type) {
	case *types.Slice:
		sv := fx.eval(st, s.X) // evaluated once
		st.vars[idxVar] = &Value{T: idxVar.Type(), Tm: ts.Int(0)}
		if keyVar != nil {
			fx.bindVar(st, keyVar, &Value{T: keyVar.Type(), Tm: ts.Int(0)})
		}
		if valVar != nil {
			fx.bindVar(st, valVar, e.zeroValue(valVar.Type()))
		}
		cond := func(h *State) *Term {
			i := h.vars[idxVar].Tm
			h.assume(ts.And(ts.Le(ts.Int(0), i), ts.Le(i, sv.Sl.Len)))
			return ts.Lt(i, sv.Sl.Len)
		}
		body := func(b *State) *State {
			i := b.vars[idxVar].Tm
			if keyVar != nil {
				fx.bindVar(b, keyVar, &Value{T: keyVar.Type(), Tm: i})
			}
			if valVar != nil {
				v := e.loadCell(b, "", ts.Add(sv.Sl.Ptr, i), u.Elem())
				fx.onRead(b, v, s)
				if !fx.spec && e.nonNilElem(u.Elem()) && v.Tm != nil && !fx.isMade(sv.Sl.Ptr) {
					b.assume(ts.Ne(v.Tm, ts.Int(0)))
				}
				fx.bindVar(b, valVar, v)
			}
			return fx.execBlock(b, s.Body.List)
		}
		post := func(b *State) *State {
			b.vars[idxVar] = &Value{T: idxVar.Type(), Tm: ts.Add(b.vars[idxVar].Tm, ts.Int(1))}
			return b
		}
		// the key/value variables are assigned by the loop itself
		extra := []ast.Node{}
		if s.Key != nil {
			extra = append(extra, &ast.AssignStmt{Lhs: []ast.Expr{s.Key}, Tok: token.ASSIGN, Rhs: []ast.Expr{s.Key}})
		}
		_ = extra
		return fx.execLoop(st, s, cond, body, post, nodes, idxVar)
	case *types.Map, *types.Basic, *types.Array, *types.Pointer, *types.Chan, *types.Signature:
		if mt := e.mapModelled(xt); mt != nil {
			return fx.rangeModelled(st, s, mt, keyVar, valVar)
		}
		// iteration over an unmodelled sequence: arbitrary number of iterations with arbitrary elements
		if _, ok := u.(*types.Basic); ok && u.(*types.Basic).Info()&types.IsInteger != 0 {
			e.unsup(s, "range over integer")
		}
		fx.eval(st, s.X)
		if keyVar != nil {
			fx.bindVar(st, keyVar, e.zeroValue(keyVar.Type()))
		}
		if valVar != nil {
			fx.bindVar(st, valVar, e.zeroValue(valVar.Type()))
		}
		more := func(h *State) *Term { return ts.Fresh("rangemore", SBool) }
		body := func(b *State) *State {
			if keyVar != nil {
				fx.bindVar(b, keyVar, e.havocValue(b, keyVar.Type(), keyVar.Name()))
			}
			if valVar != nil {
				v := e.havocValue(b, valVar.Type(), valVar.Name())
				fx.onRead(b, v, s)
				fx.bindVar(b, valVar, v)
			}
			return fx.execBlock(b, s.Body.List)
		}
		return fx.execLoop(st, s, more, body, nil, nodes, nil)
	}
	e.unsup(s, "range over %s", e.typeStr(xt))
	return st
}

// ---- switch ---------------------------------------------------------------------------------

func (fx *fctx) execSwitch(st *State, s *ast.SwitchStmt) *State {
	e := fx.e
	ts := e.ts
	if s.Init != nil {
		st = fx.exec(st, s.Init)
		if st.dead {
			return st
		}
	}
	var tag *Value
	if s.Tag != nil {
		tag = fx.eval(st, s.Tag)
	}
	jf := &jumpFrame{isLoop: false, label: fx.pendingLabel}
	fx.pendingLabel = ""
	fx.jumps = append(fx.jumps, jf)
	var outs []*State
	noneMatched := st.clone()
	var defaultClause *ast.CaseClause
	var defaultIdx int
	var fall *State
	clauses := s.Body.List
	// isMainDispatch: switch over code.T inside evaluate gets per-case obligation names
	labelCases := fx.isDispatchSwitch(s)
	split := s == fx.tailSwitch && len(fx.jumps) >= 2 && fx.jumps[len(fx.jumps)-2].isLoop
	// case expressions are evaluated in source order, each one in the state in which the earlier cases did not
	// match (so `case len(xs) == 0: ...; case xs[0] == "":` checks the index under len(xs) != 0)
	evalCond := func(cc *ast.CaseClause) *Term {
		var alts []*Term
		for _, x := range cc.List {
			if tag != nil {
				v := fx.eval(noneMatched, x)
				alts = append(alts, fx.valuesEqual(noneMatched, tag, v, x))
			} else {
				alts = append(alts, fx.evalBool(noneMatched, x))
			}
		}
		return ts.Or(alts...)
	}
	for i, c := range clauses {
		if cc := c.(*ast.CaseClause); cc.List == nil {
			defaultClause = cc
			defaultIdx = i
		}
	}
	runBody := func(i int, cc *ast.CaseClause, entry *State) {
		states := []*State{entry}
		if fall != nil {
			states = append(states, fall)
			fall = nil
		}
		b := e.merge(states)
		if b.dead {
			return
		}
		saved := fx.caseLabel
		if labelCases && len(cc.List) > 0 {
			fx.caseLabel = e.exprStr(cc.List[0])
		} else if labelCases {
			fx.caseLabel = "default"
		}
		b.fallthru = false
		b = fx.execBlock(b, cc.Body)
		fx.caseLabel = saved
		if b.fallthru && !b.dead {
			b.fallthru = false
			fall = b
			return
		}
		if split && !b.dead {
			// the dispatch switch ends the loop body: each case reaches the back edge on its own
			lbl := "default"
			if len(cc.List) > 0 {
				lbl = e.exprStr(cc.List[0])
			}
			b.label = lbl
			lf := fx.jumps[len(fx.jumps)-2]
			lf.conts = append(lf.conts, b)
			return
		}
		outs = append(outs, b)
	}
	for i, c := range clauses {
		cc := c.(*ast.CaseClause)
		if cc.List == nil {
			// default is evaluated last but fallthrough order follows the source; handle simple case
			if fall != nil {
				runBody(i, cc, &State{dead: true})
			}
			continue
		}
		cond := evalCond(cc)
		entry := noneMatched.clone()
		entry.branch(cond)
		noneMatched.branch(ts.Not(cond))
		runBody(i, cc, entry)
	}
	if defaultClause != nil {
		runBody(defaultIdx, defaultClause, noneMatched)
	} else if split && !noneMatched.dead {
		noneMatched.label = "no-case"
		lf := fx.jumps[len(fx.jumps)-2]
		lf.conts = append(lf.conts, noneMatched)
	} else {
		outs = append(outs, noneMatched)
	}
	if fall != nil {
		outs = append(outs, fall)
	}
	fx.jumps = fx.jumps[:len(fx.jumps)-1]
	outs = append(outs, jf.breaks...)
	fx.settleDirty(outs, s)
	return e.merge(outs)
}

func (fx *fctx) isDispatchSwitch(s *ast.SwitchStmt) bool {
	if s.Tag == nil {
		return false
	}
	t := fx.e.P.Info.TypeOf(s.Tag)
	if n, ok := t.(*types.Named); ok && n.Obj().Name() == "CodeType" && fx.fi.Decl.Name.Name == "evaluate" {
		return true
	}
	return false
}

// settleDirty: objects written on only some of the paths about to be merged get their invariant
// re-established on those paths (after the merge the obligation could not be stated precisely).
func (fx *fctx) settleDirty(states []*State, n ast.Node) {
	var live []*State
	for _, s := range states {
		if s != nil && !s.dead {
			live = append(live, s)
		}
	}
	if len(live) < 2 {
		return
	}
	// objects dirty on every path stay dirty; those dirty on some paths only are settled now
	count := map[int]int{}
	for _, s := range live {
		for _, d := range s.dirty {
			count[d.id]++
		}
	}
	for _, s := range live {
		var keepD []*Term
		var keepT []*typeInvInfo
		var chkD []*Term
		var chkT []*typeInvInfo
		for i, d := range s.dirty {
			if count[d.id] == len(live) {
				keepD = append(keepD, d)
				keepT = append(keepT, s.dirtyTI[i])
			} else {
				chkD = append(chkD, d)
				chkT = append(chkT, s.dirtyTI[i])
			}
		}
		if len(chkD) == 0 {
			continue
		}
		s.dirty, s.dirtyTI = chkD, chkT
		fx.boundaryCheck(s, n, "join")
		s.dirty = append(s.dirty, keepD...)
		s.dirtyTI = append(s.dirtyTI, keepT...)
	}
}

// mapValsFact: the declared fact about values of the immutable package-level map denoted by x, instantiated for v.
func (fx *fctx) mapValsFact(st *State, x ast.Expr, v *Value) *Term {
	e := fx.e
	id, ok := x.(*ast.Ident)
	if !ok {
		return nil
	}
	gv, ok := e.P.Info.Uses[id].(*types.Var)
	if !ok || !fx.isGlobal(gv) {
		return nil
	}
	for _, mv := range e.P.CF.MapVals {
		if mv.Clause.Kind == "mapvals:"+gv.Name() && mv.Clause.Fn != nil {
			return fx.evalClause(st, nil, mv.Clause, map[string]*Value{mv.Var: v})
		}
	}
	return nil
}

// monotoneCounter: the variable of `for i := X; i < E; i++ { body }` when the body never assigns i.
func (fx *fctx) monotoneCounter(fs *ast.ForStmt) *types.Var {
	info := fx.e.P.Info
	as, ok := fs.Init.(*ast.AssignStmt)
	if !ok || len(as.Lhs) != 1 || len(as.Rhs) != 1 {
		return nil
	}
	id, ok := as.Lhs[0].(*ast.Ident)
	if !ok {
		return nil
	}
	obj := info.Defs[id]
	if obj == nil {
		obj = info.Uses[id]
	}
	v, ok := obj.(*types.Var)
	if !ok || fx.boxed[v] {
		return nil
	}
	be, ok := fs.Cond.(*ast.BinaryExpr)
	if !ok || be.Op != token.LSS {
		return nil
	}
	if cid, ok := be.X.(*ast.Ident); !ok || info.Uses[cid] != v {
		return nil
	}
	inc, ok := fs.Post.(*ast.IncDecStmt)
	if !ok || inc.Tok != token.INC {
		return nil
	}
	if pid, ok := inc.X.(*ast.Ident); !ok || info.Uses[pid] != v {
		return nil
	}
	if fx.assignedIn([]ast.Node{fs.Body})[v] {
		return nil
	}
	return v
}
