package vc

import (
	"go/ast"
	"go/token"
	"go/types"
)

// Sequential models of the synchronisation primitives ValueMap is built from.  dsvc verifies single-threaded
// executions only, so (listed as an assumption wherever one of these is used):
//
//	sync.Mutex.Lock/Unlock            no effect
//	atomic.Value.Load/Store           read / write of a cell holding an interface value
//	atomic.LoadPointer/StorePointer   read / write of the unsafe.Pointer cell named by &x
//	atomic.CompareAndSwapPointer      if *addr == old { *addr = new; true } else false
//
// Linearizability under concurrency is outside this model (C12's second half stays not covered).
func (fx *fctx) syncModel(st *State, fn *types.Func, recvExpr ast.Expr, ce *ast.CallExpr) ([]*Value, bool) {
	e := fx.e
	ts := e.ts
	if fn.Pkg() == nil {
		return nil, false
	}
	path := fn.Pkg().Path()
	if path != "sync" && path != "sync/atomic" {
		return nil, false
	}
	sig := fn.Type().(*types.Signature)
	recvName := ""
	if sig.Recv() != nil {
		rt := sig.Recv().Type()
		if p, ok := rt.(*types.Pointer); ok {
			rt = p.Elem()
		}
		if n, ok := rt.(*types.Named); ok {
			recvName = n.Obj().Name()
		}
	}
	note := func() {
		e.Assumptions["sync and sync/atomic primitives are given their sequential meaning (mutexes no-ops, atomic cells plain cells, compare-and-swap never interleaved): single-threaded executions only"] = true
	}
	cellOf := func(x ast.Expr) *lval {
		for {
			if p, ok := x.(*ast.ParenExpr); ok {
				x = p.X
				continue
			}
			break
		}
		u, ok := x.(*ast.UnaryExpr)
		if !ok || u.Op != token.AND {
			e.unsup(ce, "atomic operation on a computed address %s", e.exprStr(x))
		}
		return fx.evalLval(st, u.X)
	}
	switch {
	case path == "sync" && (recvName == "Mutex" || recvName == "RWMutex"):
		switch fn.Name() {
		case "Lock", "Unlock", "RLock", "RUnlock":
			note()
			return nil, true
		}
	case path == "sync/atomic" && recvName == "Value":
		lv := fx.evalLval(st, recvExpr)
		switch fn.Name() {
		case "Load":
			note()
			v := fx.readLval(st, lv, ce)
			return []*Value{{T: sig.Results().At(0).Type(), Tm: v.Tm}}, true
		case "Store":
			note()
			arg := fx.eval(st, ce.Args[0])
			boxed := fx.convertForAssign(st, arg, sig.Params().At(0).Type())
			fx.assign(st, lv, &Value{T: lv.t, Tm: boxed.Tm}, ce)
			return nil, true
		}
	case path == "sync/atomic" && recvName == "":
		switch fn.Name() {
		case "LoadPointer":
			note()
			lv := cellOf(ce.Args[0])
			v := fx.readLval(st, lv, ce)
			return []*Value{v}, true
		case "StorePointer":
			note()
			lv := cellOf(ce.Args[0])
			nv := fx.eval(st, ce.Args[1])
			fx.assign(st, lv, nv, ce)
			return nil, true
		case "CompareAndSwapPointer":
			note()
			lv := cellOf(ce.Args[0])
			old := fx.eval(st, ce.Args[1])
			nv := fx.eval(st, ce.Args[2])
			cur := fx.readLval(st, lv, ce)
			eq := ts.Eq(cur.Tm, old.Tm)
			fx.assign(st, lv, &Value{T: lv.t, Tm: ts.Ite(eq, nv.Tm, cur.Tm)}, ce)
			return []*Value{{T: types.Typ[types.Bool], Tm: eq}}, true
		}
	}
	return nil, false
}
