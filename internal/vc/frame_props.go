package vc

import (
	"fmt"
	"go/ast"
	"go/token"
	"go/types"
	"sort"
	"strconv"
	"strings"
)

// Frame/effect obligations for C06, C11, C14, C16 — decided by the syntactic pass over the typed call graph.

func (e *Engine) reachable(roots []*types.Func) map[*types.Func]bool {
	seen := map[*types.Func]bool{}
	var walk func(f *types.Func)
	walk = func(f *types.Func) {
		if seen[f] {
			return
		}
		seen[f] = true
		fe := e.effects.Local[f]
		if fe == nil {
			return
		}
		for c := range fe.Callees {
			walk(c)
		}
	}
	for _, r := range roots {
		walk(r)
	}
	return seen
}

func (e *Engine) isGenerated(fi *FuncInfo) bool {
	return fi.File == "roll.peg.go" || fi.File == ContractsFileName || fi.File == GenFileName || strings.HasSuffix(fi.File, "_test.go")
}

func (e *Engine) exportedRoots() []*types.Func {
	var out []*types.Func
	for _, fi := range e.P.Funcs {
		if fi.Obj == nil || e.isGenerated(fi) {
			continue
		}
		if fi.Obj.Exported() {
			out = append(out, fi.Obj)
		} else if _, ok := e.effects.AddressTaken[fi.Obj]; ok {
			// used as a function value (tables of built-ins, hooks): callable through any dynamic call
			out = append(out, fi.Obj)
		}
	}
	// methods of the generated parser run inside Parse through the rule table
	for _, fi := range e.P.Funcs {
		if fi.Obj != nil && fi.File == "roll.peg.go" {
			if _, ok := e.effects.AddressTaken[fi.Obj]; ok {
				out = append(out, fi.Obj)
			}
		}
	}
	sort.Slice(out, func(i, j int) bool { return out[i].FullName() < out[j].FullName() })
	return out
}

func (e *Engine) sortedFuncs(set map[*types.Func]bool) []*FuncInfo {
	var out []*FuncInfo
	for f := range set {
		if fi := e.P.FuncByObj[f]; fi != nil && !e.isGenerated(fi) {
			out = append(out, fi)
		}
	}
	sort.Slice(out, func(i, j int) bool { return out[i].Key < out[j].Key })
	return out
}

func (e *Engine) addFramePropObligations() {
	info := e.P.Info
	all := e.reachable(e.exportedRoots())
	// PEG action closures run inside Parse: include the generated file's functions for reachability of effects,
	// but obligations are stated per non-generated function plus one summary for the generated parser.
	for _, fi := range e.sortedFuncs(all) {
		fe := e.effects.Local[fi.Obj]
		if fe == nil || e.effects.InitFuncs[fi.Obj] {
			continue
		}
		// ---- C11: no writes of package-level state, reads only of immutable-after-init state ----
		var w []string
		for v, pos := range fe.GlobalsWrite {
			w = append(w, v.Name()+"@"+pos)
		}
		sort.Strings(w)
		e.frameObl("frame:"+fi.Key+"/no-global-write", []string{"C11"}, len(w) == 0, e.posStr(fi.Decl.Pos()),
			fi.Key+" assigns no package-level variable", "assigns "+strings.Join(w, ", "))
		var r []string
		for v, pos := range fe.GlobalsRead {
			if v.Pkg() != e.P.Pkg.Types {
				continue
			}
			if e.effects.GlobalWritten[v] {
				r = append(r, v.Name()+"@"+pos)
			}
		}
		sort.Strings(r)
		e.frameObl("frame:"+fi.Key+"/reads-only-immutable-globals", []string{"C11"}, len(r) == 0, e.posStr(fi.Decl.Pos()),
			fi.Key+" reads only package-level variables that are never assigned after initialisation", "reads mutable "+strings.Join(r, ", "))
		// ---- C11: no unsynchronised object shared through a package-level pointer (rand.PCGSource is not goroutine-safe) ----
		var sh []string
		for v, pos := range fe.GlobalsRead {
			if v.Pkg() != e.P.Pkg.Types {
				continue
			}
			if p, ok := v.Type().Underlying().(*types.Pointer); ok && strings.HasSuffix(e.typeStr(p.Elem()), "rand.PCGSource") {
				sh = append(sh, v.Name()+"@"+pos)
			}
		}
		sort.Strings(sh)
		e.frameObl("frame:"+fi.Key+"/no-shared-generator-object", []string{"C11"}, len(sh) == 0, e.posStr(fi.Decl.Pos()),
			fi.Key+" uses no random source shared between contexts through a package-level pointer", "uses "+strings.Join(sh, ", "))
		// ---- C11: no reusable container object (sync.Pool, sync.Map, bytes.Buffer, strings.Builder, container/*, channels)
		// shared between contexts through a package-level variable: whatever one VM puts in, another takes out ----
		var pools []string
		for v, pos := range fe.GlobalsRead {
			if v.Pkg() != e.P.Pkg.Types {
				continue
			}
			t := v.Type()
			if p, ok := t.Underlying().(*types.Pointer); ok {
				t = p.Elem()
			}
			if _, isChan := t.Underlying().(*types.Chan); isChan {
				pools = append(pools, v.Name()+"@"+pos)
				continue
			}
			if nt, ok := t.(*types.Named); ok && nt.Obj().Pkg() != nil {
				switch nt.Obj().Pkg().Path() {
				case "sync", "bytes", "strings", "container/list", "container/heap", "container/ring", "sync/atomic":
					if n := nt.Obj().Name(); n != "Mutex" && n != "RWMutex" && n != "Once" {
						pools = append(pools, v.Name()+" ("+nt.Obj().Pkg().Path()+"."+n+")@"+pos)
					}
				}
			}
		}
		sort.Strings(pools)
		e.frameObl("frame:"+fi.Key+"/no-shared-container-object", []string{"C11"}, len(pools) == 0, e.posStr(fi.Decl.Pos()),
			fi.Key+" uses no reusable container (pool, buffer, builder, list, channel) shared between contexts through a package-level variable", "uses "+strings.Join(pools, ", "))
		// ---- C06 / C11: no use of a process-global random generator or clock in a result-relevant way ----
		var g []string
		for name, pos := range fe.ExtCalls {
			if isGlobalRandFunc(name) {
				g = append(g, name+"@"+pos)
			}
		}
		sort.Strings(g)
		e.frameObl("frame:"+fi.Key+"/no-global-rng", []string{"C06", "C11"}, len(g) == 0, e.posStr(fi.Decl.Pos()),
			fi.Key+" draws from no process-global random generator", "calls "+strings.Join(g, ", "))
		if _, usesClock := fe.ExtCalls["time.Now"]; usesClock {
			ok, why := e.clockOnlyDebug(fi)
			e.frameObl("frame:"+fi.Key+"/clock-not-in-result", []string{"C06"}, ok, e.posStr(fi.Decl.Pos()),
				fi.Key+" uses the clock only for debug printing", why)
		}
		// ---- C06: order-sensitive iteration over Go maps ----
		for i, site := range e.mapRangeSites(fi) {
			e.frameObl(fmt.Sprintf("frame:%s/map-range-order#%d", fi.Key, i+1), []string{"C06"}, !site.sensitive, site.pos,
				"range over a Go map in "+fi.Key+" is order-insensitive (no callback, append or concatenation in its body)", site.why)
		}
	}
	// ---- C11: the same for the generated parser (grammar actions and PEG runtime in roll.peg.go), as one summary each ----
	{
		var gw, gr []string
		for f := range all {
			fi := e.P.FuncByObj[f]
			if fi == nil || !e.isGenerated(fi) || e.effects.InitFuncs[f] {
				continue
			}
			fe := e.effects.Local[f]
			if fe == nil {
				continue
			}
			for v, pos := range fe.GlobalsWrite {
				gw = append(gw, fi.Key+" assigns "+v.Name()+"@"+pos)
			}
			for v, pos := range fe.GlobalsRead {
				if v.Pkg() == e.P.Pkg.Types && e.effects.GlobalWritten[v] {
					gr = append(gr, fi.Key+" reads mutable "+v.Name()+"@"+pos)
				}
			}
		}
		sort.Strings(gw)
		sort.Strings(gr)
		e.frameObl("frame:roll.peg.go/no-global-write", []string{"C11"}, len(gw) == 0, "", "no function of the generated parser assigns a package-level variable", strings.Join(gw, "; "))
		e.frameObl("frame:roll.peg.go/reads-only-immutable-globals", []string{"C11"}, len(gr) == 0, "", "the generated parser reads only package-level variables that are never assigned after initialisation", strings.Join(gr, "; "))
	}
	// ---- C11: no pointer to a package-level variable is taken on the API path: an object reached through such a pointer
	// (a shared statistics block, a shared scratch struct) is shared by every context in the process ----
	{
		var bad []string
		for f := range all {
			fi := e.P.FuncByObj[f]
			if fi == nil || fi.Decl == nil || fi.Decl.Body == nil || e.effects.InitFuncs[f] || fi.File == ContractsFileName {
				continue
			}
			ast.Inspect(fi.Decl.Body, func(n ast.Node) bool {
				u, ok := n.(*ast.UnaryExpr)
				if !ok || u.Op != token.AND {
					return true
				}
				root := rootIdent(u.X)
				if root == nil {
					return true
				}
				if v, ok := info.Uses[root].(*types.Var); ok && e.isPkgGlobal(v) && v.Pkg() == e.P.Pkg.Types && !throughPointer(info, u.X) {
					bad = append(bad, fi.Key+" takes &"+e.exprStr(u.X)+" at "+e.posStr(u.Pos()))
				}
				return true
			})
		}
		sort.Strings(bad)
		e.frameObl("frame:api/no-address-of-global", []string{"C11"}, len(bad) == 0, "", "no function reachable from the exported API (generated parser included) takes the address of a package-level variable", strings.Join(bad, "; "))
	}
	// ---- C06: every dice roll reachable from a context draws from that context's source ----
	e.rollSourceObligations()
	// ---- C16: nothing on the parse/eval path writes a Context's configuration ----
	e.configWriteObligations()
	// ---- C14: observing the detail text does not change result, variables or generator ----
	e.detailFrameObligations()
	// ---- C01/C10: the VM's operand stack slots are written only by the evaluate invocation that owns them ----
	e.stackPrivacyObligations()
	e.vmRegisterPrivacyObligations()
	e.tableAlignmentObligations()
	e.opcodeCoverageObligations()
	e.addPEGObligations()
	_ = info
}

func isGlobalRandFunc(name string) bool {
	for _, p := range []string{"golang.org/x/exp/rand.", "math/rand.", "math/rand/v2."} {
		if strings.HasPrefix(name, p) {
			rest := strings.TrimPrefix(name, p)
			// package-level functions (not methods, not constructors)
			if strings.HasPrefix(rest, "New") {
				return false
			}
			return true
		}
	}
	return false
}

// clockOnlyDebug: every value derived from time.Now in fi flows only into fmt.Print* arguments.
func (e *Engine) clockOnlyDebug(fi *FuncInfo) (bool, string) {
	info := e.P.Info
	tainted := map[*types.Var]bool{}
	isClock := func(x ast.Expr) bool {
		found := false
		ast.Inspect(x, func(n ast.Node) bool {
			if ce, ok := n.(*ast.CallExpr); ok {
				if se, ok := ce.Fun.(*ast.SelectorExpr); ok {
					if fn, ok := info.Uses[se.Sel].(*types.Func); ok && fn.FullName() == "time.Now" {
						found = true
					}
				}
			}
			if id, ok := n.(*ast.Ident); ok {
				if v, ok := info.Uses[id].(*types.Var); ok && tainted[v] {
					found = true
				}
			}
			return true
		})
		return found
	}
	// pass 1: variables assigned from clock expressions
	for k := 0; k < 3; k++ {
		ast.Inspect(fi.Decl.Body, func(n ast.Node) bool {
			if as, ok := n.(*ast.AssignStmt); ok {
				for i, r := range as.Rhs {
					if isClock(r) && i < len(as.Lhs) {
						if id, ok := as.Lhs[i].(*ast.Ident); ok {
							if v, ok := info.ObjectOf(id).(*types.Var); ok {
								tainted[v] = true
							}
						}
					}
				}
			}
			return true
		})
	}
	// pass 2: every clock-derived expression must be an argument of fmt.Print*
	ok := true
	why := ""
	var stack []ast.Node
	ast.Inspect(fi.Decl.Body, func(n ast.Node) bool {
		if n == nil {
			stack = stack[:len(stack)-1]
			return true
		}
		stack = append(stack, n)
		x, isExpr := n.(ast.Expr)
		if !isExpr {
			return true
		}
		direct := false
		if id, isId := x.(*ast.Ident); isId {
			if v, isV := info.Uses[id].(*types.Var); isV && tainted[v] {
				direct = true
			}
		}
		if ce, isCall := x.(*ast.CallExpr); isCall {
			if se, isSel := ce.Fun.(*ast.SelectorExpr); isSel {
				if fn, isFn := info.Uses[se.Sel].(*types.Func); isFn && fn.FullName() == "time.Now" {
					direct = true
				}
			}
		}
		if !direct {
			return true
		}
		// walk up: allowed contexts are fmt.Print* calls or the defining assignment of a tainted variable
		allowed := false
		for i := len(stack) - 2; i >= 0; i-- {
			switch p := stack[i].(type) {
			case *ast.CallExpr:
				if se, isSel := p.Fun.(*ast.SelectorExpr); isSel {
					if fn, isFn := info.Uses[se.Sel].(*types.Func); isFn && strings.HasPrefix(fn.FullName(), "fmt.Print") {
						allowed = true
					}
				}
			case *ast.AssignStmt:
				for _, l := range p.Lhs {
					if id, isId := l.(*ast.Ident); isId {
						if v, isV := info.ObjectOf(id).(*types.Var); isV && tainted[v] {
							allowed = true
						}
					}
				}
			}
			if allowed {
				break
			}
		}
		if !allowed {
			ok = false
			why = "clock value used at " + e.posStr(x.Pos())
		}
		return true
	})
	return ok, why
}

type mapRangeSite struct {
	pos       string
	sensitive bool
	why       string
}

func (e *Engine) mapRangeSites(fi *FuncInfo) []mapRangeSite {
	info := e.P.Info
	var out []mapRangeSite
	ast.Inspect(fi.Decl.Body, func(n ast.Node) bool {
		rs, ok := n.(*ast.RangeStmt)
		if !ok {
			return true
		}
		t := info.TypeOf(rs.X)
		if t == nil {
			return true
		}
		if _, isMap := t.Underlying().(*types.Map); !isMap {
			return true
		}
		site := mapRangeSite{pos: e.posStr(rs.Pos())}
		ast.Inspect(rs.Body, func(m ast.Node) bool {
			switch u := m.(type) {
			case *ast.CallExpr:
				if id, ok := u.Fun.(*ast.Ident); ok {
					if b, ok := info.Uses[id].(*types.Builtin); ok && b.Name() == "append" {
						site.sensitive = true
						site.why = "append in body at " + e.posStr(u.Pos())
					}
					if v, ok := info.Uses[id].(*types.Var); ok {
						site.sensitive = true
						site.why = "call of function value " + v.Name() + " in body at " + e.posStr(u.Pos())
					}
				}
			case *ast.AssignStmt:
				if u.Tok == token.ADD_ASSIGN {
					if tt := info.TypeOf(u.Lhs[0]); tt != nil {
						if b, ok := tt.Underlying().(*types.Basic); ok && b.Info()&types.IsString != 0 {
							site.sensitive = true
							site.why = "string concatenation in body at " + e.posStr(u.Pos())
						}
					}
				}
			}
			return true
		})
		out = append(out, site)
		return true
	})
	return out
}

// rollSourceObligations: each call of a Roll* function outside roll_func.go passes <ctx>.RandSrc.
func (e *Engine) rollSourceObligations() {
	info := e.P.Info
	rolls := map[string]bool{"Roll": true, "RollCommon": true, "RollCoC": true, "RollFate": true, "RollWoD": true, "RollDoubleCross": true}
	var fis []*FuncInfo
	for _, fi := range e.P.Funcs {
		if fi.Obj != nil && !e.isGenerated(fi) {
			fis = append(fis, fi)
		}
	}
	sort.Slice(fis, func(i, j int) bool { return fis[i].Key < fis[j].Key })
	for _, fi := range fis {
		cnt := map[string]int{}
		ast.Inspect(fi.Decl.Body, func(n ast.Node) bool {
			ce, ok := n.(*ast.CallExpr)
			if !ok {
				return true
			}
			id, ok := ce.Fun.(*ast.Ident)
			if !ok || !rolls[id.Name] {
				return true
			}
			if fn, ok := info.Uses[id].(*types.Func); !ok || fn.Pkg() != e.P.Pkg.Types {
				return true
			}
			cnt[id.Name]++
			arg := ce.Args[0]
			okSrc := false
			switch a := arg.(type) {
			case *ast.SelectorExpr:
				// X.RandSrc where X is a *Context
				if a.Sel.Name == "RandSrc" {
					if t := info.TypeOf(a.X); t != nil && strings.HasSuffix(e.typeStr(t), "Context") {
						okSrc = true
					}
				}
			case *ast.CallExpr:
				// ctxRandSrc(<ctx>): accessor under contract (result == ctx.RandSrc for a non-nil context)
				if id2, ok := a.Fun.(*ast.Ident); ok && id2.Name == "ctxRandSrc" && len(a.Args) == 1 {
					if t := info.TypeOf(a.Args[0]); t != nil && strings.HasSuffix(e.typeStr(t), "Context") {
						okSrc = true
					}
				}
			case *ast.Ident:
				// a parameter named src of the enclosing roll function (forwarding)
				if v, ok := info.Uses[a].(*types.Var); ok && v.Name() == "src" && fi.File == "roll_func.go" {
					okSrc = true
				}
			}
			e.frameObl(fmt.Sprintf("frame:%s/roll-source:%s#%d", fi.Key, id.Name, cnt[id.Name]), []string{"C06"}, okSrc, e.posStr(ce.Pos()),
				"call of "+id.Name+" in "+fi.Key+" draws from the context's generator (first argument is <ctx>.RandSrc)", "first argument is "+e.exprStr(arg))
			return true
		})
	}
	// sub-VMs share the parent's source and configuration: asserted semantically where FuncInvokeRaw / ComputedExecute run
	// their sub-VM (specInherits in the contracts file); the former syntactic obligation subvm-inherits-source was
	// dropped because it alarmed on a correct extract-helper refactor.
}

// configWriteObligations: assignments to (fields of) a Context's Config.
func (e *Engine) configWriteObligations() {
	info := e.P.Info
	var fis []*FuncInfo
	for _, fi := range e.P.Funcs {
		if fi.Obj != nil && fi.File != ContractsFileName && fi.File != GenFileName && !strings.HasSuffix(fi.File, "_test.go") {
			fis = append(fis, fi)
		}
	}
	sort.Slice(fis, func(i, j int) bool { return fis[i].Key < fis[j].Key })
	for _, fi := range fis {
		// locals bound to NewVM() are fresh contexts
		fresh := map[*types.Var]bool{}
		ast.Inspect(fi.Decl.Body, func(n ast.Node) bool {
			if as, ok := n.(*ast.AssignStmt); ok {
				for i, r := range as.Rhs {
					if ce, ok := r.(*ast.CallExpr); ok {
						if id, ok := ce.Fun.(*ast.Ident); ok && id.Name == "NewVM" && i < len(as.Lhs) {
							if l, ok := as.Lhs[i].(*ast.Ident); ok {
								if v, ok := info.ObjectOf(l).(*types.Var); ok {
									fresh[v] = true
								}
							}
						}
					}
				}
			}
			return true
		})
		k := 0
		check := func(lhs ast.Expr) {
			// find a ".Config" selector on a Context in the lhs path
			x := lhs
			var field string
			for {
				se, ok := x.(*ast.SelectorExpr)
				if !ok {
					return
				}
				if se.Sel.Name == "Config" {
					if t := info.TypeOf(se.X); t != nil && strings.HasSuffix(strings.TrimPrefix(e.typeStr(t), "*"), "Context") && !strings.Contains(e.typeStr(t), "Parser") {
						k++
						base := rootIdent(se.X)
						okW := false
						why := "assignment to " + e.exprStr(lhs)
						if fi.Key == "(*Context).SetConfig" {
							okW = true
						}
						if base != nil {
							if v, ok := info.ObjectOf(base).(*types.Var); ok && fresh[v] {
								okW = true // configuration of a freshly created sub-VM
							}
						}
						if field != "" && !ast.IsExported(field) {
							okW = true // unexported cache field, not a flag
						}
						e.frameObl(fmt.Sprintf("frame:%s/config-write#%d", fi.Key, k), []string{"C16"}, okW, e.posStr(lhs.Pos()),
							"write to a Context's Config in "+fi.Key+" is SetConfig, a fresh sub-VM's configuration, or an unexported cache field", why)
					}
					return
				}
				field = se.Sel.Name
				x = se.X
			}
		}
		// isCtxConfig: x is `<context>.Config`
		isCtxConfig := func(x ast.Expr) bool {
			se, ok := x.(*ast.SelectorExpr)
			if !ok || se.Sel.Name != "Config" {
				return false
			}
			t := info.TypeOf(se.X)
			return t != nil && strings.HasSuffix(strings.TrimPrefix(e.typeStr(t), "*"), "Context") && !strings.Contains(e.typeStr(t), "Parser")
		}
		ast.Inspect(fi.Decl.Body, func(n ast.Node) bool {
			switch u := n.(type) {
			case *ast.AssignStmt:
				for _, l := range u.Lhs {
					check(l)
				}
			case *ast.IncDecStmt:
				check(u.X)
			case *ast.UnaryExpr:
				// &ctx.Config handed to somebody: the configuration can be written behind the frame's back
				if u.Op == token.AND && isCtxConfig(u.X) && fi.Key != "(*Context).SetConfig" {
					k++
					e.frameObl(fmt.Sprintf("frame:%s/config-write#%d", fi.Key, k), []string{"C16"}, false, e.posStr(u.Pos()),
						"no pointer to a Context's Config is taken in "+fi.Key, "address of "+e.exprStr(u.X)+" is taken")
				}
			case *ast.CallExpr:
				// ctx.Config.m(...) with a pointer receiver that (transitively) writes configuration fields
				if se, ok := u.Fun.(*ast.SelectorExpr); ok && isCtxConfig(se.X) {
					if sel := info.Selections[se]; sel != nil {
						if fn, ok := sel.Obj().(*types.Func); ok {
							if sig, ok := fn.Type().(*types.Signature); ok && sig.Recv() != nil {
								if _, ptr := sig.Recv().Type().(*types.Pointer); ptr {
									writes := false
									if tr := e.effects.Trans[fn]; tr != nil {
										for key := range tr.Writes {
											if strings.HasPrefix(key, "RollConfig.") {
												writes = true
											}
										}
									}
									if writes {
										k++
										e.frameObl(fmt.Sprintf("frame:%s/config-write#%d", fi.Key, k), []string{"C16"}, false, e.posStr(u.Pos()),
											"no configuration-writing method is called on a Context's Config in "+fi.Key, "call of "+fn.Name()+" on "+e.exprStr(se.X)+" writes configuration fields")
									}
								}
							}
						}
					}
				}
			}
			return true
		})
	}
	// Parse hands its input text to the parser unmodified (C03: Matched + RestInput is the caller's text; C13: literal
	// text is reproduced byte for byte)
	if fi := e.P.Funcs["(*Context).Parse"]; fi != nil && fi.Decl.Type.Params != nil && len(fi.Decl.Type.Params.List) == 1 {
		pname := fi.Decl.Type.Params.List[0].Names[0].Name
		reassigned := false
		passed := false
		ast.Inspect(fi.Decl.Body, func(n ast.Node) bool {
			switch u := n.(type) {
			case *ast.AssignStmt:
				for _, l := range u.Lhs {
					if id, ok := l.(*ast.Ident); ok && id.Name == pname {
						reassigned = true
					}
				}
			case *ast.CallExpr:
				if id, ok := u.Fun.(*ast.Ident); ok && id.Name == "newParser" && len(u.Args) >= 2 {
					if conv, ok := u.Args[1].(*ast.CallExpr); ok && len(conv.Args) == 1 {
						if a, ok := conv.Args[0].(*ast.Ident); ok && a.Name == pname {
							if at, ok := conv.Fun.(*ast.ArrayType); ok && at.Len == nil {
								passed = true
							}
						}
					}
				}
			}
			return true
		})
		e.frameObl("frame:(*Context).Parse/input-unmodified", []string{"C03", "C13"}, passed && !reassigned, e.posStr(fi.Decl.Pos()),
			"Parse gives the parser exactly the bytes of its argument (the parameter is never reassigned and is passed as []byte(value))",
			fmt.Sprintf("parameter reassigned: %v; passed as []byte(%s) to newParser: %v", reassigned, pname, passed))
	}
	// the parser works on its own copy: Parse copies ctx.Config into ParserData.Config by value
	if fi := e.P.Funcs["(*Context).Parse"]; fi != nil {
		copies := false
		ast.Inspect(fi.Decl.Body, func(n ast.Node) bool {
			if as, ok := n.(*ast.AssignStmt); ok && len(as.Lhs) == 1 && len(as.Rhs) == 1 {
				if l, ok := as.Lhs[0].(*ast.SelectorExpr); ok && l.Sel.Name == "Config" {
					if r, ok := as.Rhs[0].(*ast.SelectorExpr); ok && r.Sel.Name == "Config" {
						if _, isStruct := info.TypeOf(l).Underlying().(*types.Struct); isStruct {
							copies = true
						}
					}
				}
			}
			return true
		})
		e.frameObl("frame:(*Context).Parse/parser-config-is-a-copy", []string{"C16"}, copies, e.posStr(fi.Decl.Pos()),
			"Parse hands the parser a by-value copy of the context's Config (macros write the copy)", "no struct copy d.Config = ctx.Config found")
	}
}

// detailFrameObligations: GetDetailText (without host rewrite hooks) writes nothing but its cache.
func (e *Engine) detailFrameObligations() {
	fi := e.P.Funcs["(*Context).GetDetailText"]
	if fi == nil || fi.Obj == nil {
		e.frameObl("frame:(*Context).GetDetailText/exists", []string{"C14"}, false, "", "GetDetailText exists", "function not found")
		return
	}
	t := e.effects.Trans[fi.Obj]
	forbidden := []string{"rng.pos", "Context.Ret", "Context.Attrs", "Context.NumOpCount", "Context.Error", "Context.stack", "Context.top", "Context.code", "VMValue.TypeId", "VMValue.Value", "VMValue.*", "ArrayData.*", "ArrayData.List", "DictData.*", "global."}
	var bad []string
	for _, k := range keysList(t.Writes) {
		for _, f := range forbidden {
			if k == f || strings.HasPrefix(k, f) || matchKey(f, k) {
				bad = append(bad, k)
				break
			}
		}
	}
	e.frameObl("frame:(*Context).GetDetailText/writes-only-cache", []string{"C14"}, len(bad) == 0, e.posStr(fi.Decl.Pos()),
		"GetDetailText (transitively, host rewrite hooks aside) writes neither the result, nor values, nor the generator position, nor VM registers", "may write "+strings.Join(bad, ", "))
	var dyn []string
	for _, d := range t.DynCalls {
		if !strings.Contains(d, "CustomMakeDetailFunc") && !strings.Contains(d, "CustomDetailSpanRewriteFunc") && !strings.Contains(d, "CustomDetailRewriteFunc") && !strings.Contains(d, "interface method") && !strings.HasPrefix(d, "param-callback") {
			dyn = append(dyn, d)
		}
	}
	e.frameObl("frame:(*Context).GetDetailText/only-detail-hooks", []string{"C14"}, len(dyn) == 0, e.posStr(fi.Decl.Pos()),
		"the only host code GetDetailText can reach are the three Custom*Detail* rewrite hooks", "reaches "+strings.Join(dyn, ", "))
	var draws []string
	for name := range t.ExtCalls {
		if isGlobalRandFunc(name) || strings.Contains(name, "PCGSource).Uint64") {
			draws = append(draws, name)
		}
	}
	e.frameObl("frame:(*Context).GetDetailText/no-draw", []string{"C14"}, len(draws) == 0, e.posStr(fi.Decl.Pos()),
		"GetDetailText draws no random number", "calls "+strings.Join(draws, ", "))
	// idempotence structure: second call returns the cache or recomputes from the same inputs
	cacheRet := false
	ast.Inspect(fi.Decl.Body, func(n ast.Node) bool {
		if rs, ok := n.(*ast.ReturnStmt); ok && len(rs.Results) == 1 {
			if se, ok := rs.Results[0].(*ast.SelectorExpr); ok && se.Sel.Name == "detailCache" {
				cacheRet = true
			}
		}
		return true
	})
	e.frameObl("frame:(*Context).GetDetailText/returns-cache", []string{"C14"}, cacheRet, e.posStr(fi.Decl.Pos()),
		"GetDetailText returns the cached text it stored", "no `return ctx.detailCache`")
}

// stackPrivacyObligations justify ghostProtect(stack) in evaluate: fields of existing VMValue objects are assigned
// only (a) by evaluate through an index into a []VMValue (its own operand stack, allocated per invocation), or
// (b) by UnmarshalJSON on the value being decoded, which is not reachable from evaluate.
func (e *Engine) stackPrivacyObligations() {
	info := e.P.Info
	var fis []*FuncInfo
	for _, fi := range e.P.Funcs {
		if fi.Obj != nil && fi.File != ContractsFileName && fi.File != GenFileName && !strings.HasSuffix(fi.File, "_test.go") {
			fis = append(fis, fi)
		}
	}
	sort.Slice(fis, func(i, j int) bool { return fis[i].Key < fis[j].Key })
	isVMValue := func(t types.Type) bool {
		if t == nil {
			return false
		}
		if p, ok := t.Underlying().(*types.Pointer); ok {
			t = p.Elem()
		}
		if _, ok := t.Underlying().(*types.Struct); !ok {
			return false
		}
		return e.structName(t) == "VMValue"
	}
	var bad []string
	writers := map[string]bool{}
	fromEval := map[*types.Func]bool{}
	if ev := e.P.Funcs["(*Context).evaluate"]; ev != nil && ev.Obj != nil {
		fromEval = e.reachable([]*types.Func{ev.Obj})
	}
	for _, fi := range fis {
		check := func(lhs ast.Expr) {
			// x.TypeId / x.Value where x is a VMValue or *VMValue; *p = ... with p *VMValue; s[i] = ... with s []VMValue
			switch l := lhs.(type) {
			case *ast.SelectorExpr:
				if sel := info.Selections[l]; sel != nil && sel.Kind() == types.FieldVal && isVMValue(info.TypeOf(l.X)) {
					writers[fi.Key] = true
					viaStack := false
					if ix, ok := l.X.(*ast.IndexExpr); ok {
						if st, ok := info.TypeOf(ix.X).Underlying().(*types.Slice); ok && isVMValue(st.Elem()) {
							viaStack = true
						}
					}
					// a local struct variable is not a heap object
					if id, ok := l.X.(*ast.Ident); ok {
						if v, ok := info.ObjectOf(id).(*types.Var); ok {
							if _, isStruct := v.Type().Underlying().(*types.Struct); isStruct {
								return
							}
						}
					}
					// (b): a method of *VMValue that is not reachable from evaluate and writes its own receiver (the JSON decoder
					// and the helpers it is split into)
					decoderSide := false
					if id, ok := l.X.(*ast.Ident); ok && strings.HasPrefix(fi.Key, "(*VMValue).") && !fromEval[fi.Obj] && fi.Decl.Recv != nil && len(fi.Decl.Recv.List) == 1 && len(fi.Decl.Recv.List[0].Names) == 1 && fi.Decl.Recv.List[0].Names[0].Name == id.Name {
						decoderSide = true
					}
					if !(viaStack && fi.Key == "(*Context).evaluate") && !decoderSide {
						bad = append(bad, fi.Key+"@"+e.posStr(l.Pos()))
					}
				}
			case *ast.StarExpr:
				if isVMValue(info.TypeOf(l.X)) {
					writers[fi.Key] = true
					bad = append(bad, fi.Key+"@"+e.posStr(l.Pos()))
				}
			case *ast.IndexExpr:
				if st, ok := info.TypeOf(l.X).Underlying().(*types.Slice); ok && isVMValue(st.Elem()) {
					if _, isPtr := st.Elem().Underlying().(*types.Pointer); !isPtr {
						writers[fi.Key] = true
						if fi.Key != "(*Context).evaluate" {
							bad = append(bad, fi.Key+"@"+e.posStr(l.Pos()))
						}
					}
				}
			}
		}
		ast.Inspect(fi.Decl.Body, func(n ast.Node) bool {
			switch u := n.(type) {
			case *ast.AssignStmt:
				for _, l := range u.Lhs {
					check(l)
				}
			case *ast.IncDecStmt:
				check(u.X)
			}
			return true
		})
	}
	e.frameObl("frame:stack-privacy/writers", []string{"C01", "C10"}, len(bad) == 0, "",
		"fields of existing VMValue objects are assigned only by evaluate (through its own operand stack) and by UnmarshalJSON (on the value being decoded)", "other writers: "+strings.Join(bad, ", "))
	// UnmarshalJSON is not reachable from evaluate through static calls
	ev := e.P.Funcs["(*Context).evaluate"]
	um := e.P.Funcs["(*VMValue).UnmarshalJSON"]
	reach := false
	if ev != nil && um != nil && ev.Obj != nil && um.Obj != nil {
		reach = e.reachable([]*types.Func{ev.Obj})[um.Obj]
		if t := e.effects.Trans[ev.Obj]; t != nil {
			if _, ok := t.ExtCalls["encoding/json.Unmarshal"]; ok {
				reach = true
			}
		}
	}
	e.frameObl("frame:stack-privacy/no-decoder-in-vm", []string{"C01", "C10"}, !reach, "",
		"the JSON decoder (the only other writer of VMValue fields) is not reachable from evaluate", "evaluate reaches UnmarshalJSON / json.Unmarshal")
	// each evaluate invocation allocates its own stack
	fresh := false
	if ev != nil {
		ast.Inspect(ev.Decl.Body, func(n ast.Node) bool {
			if as, ok := n.(*ast.AssignStmt); ok && len(as.Lhs) == 1 && len(as.Rhs) == 1 {
				if se, ok := as.Lhs[0].(*ast.SelectorExpr); ok && se.Sel.Name == "stack" {
					if ce, ok := as.Rhs[0].(*ast.CallExpr); ok {
						if id, ok := ce.Fun.(*ast.Ident); ok && id.Name == "make" {
							fresh = true
						}
					}
				}
			}
			return true
		})
	}
	e.frameObl("frame:stack-privacy/fresh-stack", []string{"C01", "C10"}, fresh, "",
		"evaluate allocates a fresh operand stack for every invocation", "no `ctx.stack = make(...)` in evaluate")
}

// vmRegisterPrivacyObligations justify ghostProtectFields(ctx, "code", "codeIndex", "stack", "top") in evaluate:
// these fields are assigned only on the receiver of evaluate/Parse/RunAfterParsed or on a context freshly created
// with NewVM(), and no function reachable from evaluate runs Parse/Run/evaluate on anything but such a fresh context.
func (e *Engine) vmRegisterPrivacyObligations() {
	info := e.P.Info
	regs := map[string]bool{"code": true, "codeIndex": true, "stack": true, "top": true}
	var fis []*FuncInfo
	for _, fi := range e.P.Funcs {
		if fi.Obj != nil && fi.File != ContractsFileName && fi.File != GenFileName && !strings.HasSuffix(fi.File, "_test.go") {
			fis = append(fis, fi)
		}
	}
	sort.Slice(fis, func(i, j int) bool { return fis[i].Key < fis[j].Key })
	var badW, badRun []string
	ev := e.P.Funcs["(*Context).evaluate"]
	var fromEval map[*types.Func]bool
	if ev != nil && ev.Obj != nil {
		fromEval = e.reachable([]*types.Func{ev.Obj})
	}
	for _, fi := range fis {
		fresh := map[*types.Var]bool{}
		ast.Inspect(fi.Decl.Body, func(n ast.Node) bool {
			if as, ok := n.(*ast.AssignStmt); ok {
				for i, r := range as.Rhs {
					if ce, ok := r.(*ast.CallExpr); ok {
						if id, ok := ce.Fun.(*ast.Ident); ok && id.Name == "NewVM" && i < len(as.Lhs) {
							if l, ok := as.Lhs[i].(*ast.Ident); ok {
								if v, ok := info.ObjectOf(l).(*types.Var); ok {
									fresh[v] = true
								}
							}
						}
					}
				}
			}
			return true
		})
		var recvVar *types.Var
		if fi.Decl.Recv != nil && len(fi.Decl.Recv.List) == 1 && len(fi.Decl.Recv.List[0].Names) == 1 {
			recvVar, _ = info.Defs[fi.Decl.Recv.List[0].Names[0]].(*types.Var)
		}
		isCtx := func(t types.Type) bool {
			return t != nil && strings.TrimPrefix(e.typeStr(t), "*") == "Context"
		}
		// aliases of the receiver (e := ctx)
		alias := map[*types.Var]bool{}
		if recvVar != nil {
			alias[recvVar] = true
			ast.Inspect(fi.Decl.Body, func(n ast.Node) bool {
				if as, ok := n.(*ast.AssignStmt); ok && len(as.Lhs) == len(as.Rhs) {
					for i := range as.Lhs {
						if l, ok := as.Lhs[i].(*ast.Ident); ok {
							if r, ok := as.Rhs[i].(*ast.Ident); ok {
								if rv, ok := info.ObjectOf(r).(*types.Var); ok && alias[rv] {
									if lv, ok := info.ObjectOf(l).(*types.Var); ok {
										alias[lv] = true
									}
								}
							}
						}
					}
				}
				return true
			})
		}
		checkW := func(lhs ast.Expr) {
			se, ok := lhs.(*ast.SelectorExpr)
			if !ok || !regs[se.Sel.Name] || !isCtx(info.TypeOf(se.X)) {
				return
			}
			base, _ := se.X.(*ast.Ident)
			okW := false
			if base != nil {
				if v, ok := info.ObjectOf(base).(*types.Var); ok {
					if fresh[v] {
						okW = true
					}
					if alias[v] && (fi.Key == "(*Context).evaluate" || fi.Key == "(*Context).Parse" || fi.Key == "(*Context).RunAfterParsed") {
						okW = true
					}
				}
			}
			if !okW {
				badW = append(badW, fi.Key+"@"+e.posStr(lhs.Pos()))
			}
		}
		ast.Inspect(fi.Decl.Body, func(n ast.Node) bool {
			switch u := n.(type) {
			case *ast.AssignStmt:
				for _, l := range u.Lhs {
					checkW(l)
				}
			case *ast.IncDecStmt:
				checkW(u.X)
			case *ast.CallExpr:
				if fromEval == nil || !fromEval[fi.Obj] {
					return true
				}
				se, ok := u.Fun.(*ast.SelectorExpr)
				if !ok || !isCtx(info.TypeOf(se.X)) {
					return true
				}
				switch se.Sel.Name {
				case "Run", "Parse", "RunAfterParsed", "evaluate":
					okR := false
					if id, ok := se.X.(*ast.Ident); ok {
						if v, ok := info.ObjectOf(id).(*types.Var); ok && fresh[v] {
							okR = true
						}
						// Run calls Parse and RunAfterParsed on its own receiver: allowed when Run itself is only
						// ever called on fresh contexts (checked at Run's call sites)
						if v, ok := info.ObjectOf(id).(*types.Var); ok && alias[v] && fi.Key == "(*Context).Run" {
							okR = true
						}
						if v, ok := info.ObjectOf(id).(*types.Var); ok && alias[v] && fi.Key == "(*Context).RunAfterParsed" && se.Sel.Name == "evaluate" {
							okR = true
						}
					}
					if !okR {
						badRun = append(badRun, fi.Key+" calls "+se.Sel.Name+"@"+e.posStr(u.Pos()))
					}
				}
			}
			return true
		})
	}
	e.frameObl("frame:vm-registers-privacy/writers", []string{"C01", "C10"}, len(badW) == 0, "",
		"Context.code/codeIndex/stack/top are assigned only on the receiver of evaluate/Parse/RunAfterParsed or on a context fresh from NewVM()", "other writers: "+strings.Join(badW, ", "))
	e.frameObl("frame:vm-registers-privacy/no-reentry", []string{"C01", "C10"}, len(badRun) == 0, "",
		"no function reachable from evaluate runs Parse/Run/evaluate on a context other than one fresh from NewVM()", strings.Join(badRun, ", "))
}

// ---- C02: structural obligations over the typed AST -------------------------------------------------------

// opMethodOf: the operator method the language definition assigns to each binary opcode.
var opMethodOf = map[string]string{
	"typeAdd": "OpAdd", "typeSubtract": "OpSub", "typeMultiply": "OpMultiply", "typeDivide": "OpDivide", "typeModulus": "OpModulus",
	"typeExponentiation": "OpPower", "typeNullCoalescing": "OpNullCoalescing",
	"typeCompLT": "OpCompLT", "typeCompLE": "OpCompLE", "typeCompEQ": "OpCompEQ", "typeCompNE": "OpCompNE", "typeCompGE": "OpCompGE", "typeCompGT": "OpCompGT",
	"typeBitwiseAnd": "OpBitwiseAnd", "typeBitwiseOr": "OpBitwiseOr",
}

func (e *Engine) constInt(name string) (int64, bool) {
	o, ok := e.P.Pkg.Types.Scope().Lookup(name).(*types.Const)
	if !ok {
		return 0, false
	}
	s := o.Val().ExactString()
	var v int64
	if _, err := fmt.Sscan(s, &v); err != nil {
		return 0, false
	}
	return v, true
}

// tableAlignmentObligations: binOperator[c - typeAdd] is the method the definition names for opcode c.
func (e *Engine) tableAlignmentObligations() {
	var tab *types.Var
	if o, ok := e.P.Pkg.Types.Scope().Lookup("binOperator").(*types.Var); ok {
		tab = o
	}
	base, okb := e.constInt("typeAdd")
	if tab == nil || !okb || e.globalsInit[tab] == nil {
		e.frameObl("struct:binOperator/exists", []string{"C02"}, false, "", "operator table and typeAdd exist", "binOperator or typeAdd not found")
		return
	}
	cl := e.globalsInit[tab]
	names := make([]string, len(cl.Elts))
	for i, el := range cl.Elts {
		if se, ok := el.(*ast.SelectorExpr); ok {
			names[i] = se.Sel.Name
		}
	}
	var ops []string
	for k := range opMethodOf {
		ops = append(ops, k)
	}
	sort.Strings(ops)
	for _, op := range ops {
		c, ok := e.constInt(op)
		idx := c - base
		good := ok && idx >= 0 && int(idx) < len(names) && names[idx] == opMethodOf[op]
		got := "<out of table>"
		if ok && idx >= 0 && int(idx) < len(names) {
			got = names[idx]
		}
		e.frameObl("struct:binOperator/"+op, []string{"C02"}, good, e.posStr(cl.Pos()),
			fmt.Sprintf("binOperator[%s-typeAdd] is (*VMValue).%s", op, opMethodOf[op]), fmt.Sprintf("entry %d is %s", idx, got))
	}
	e.frameObl("struct:binOperator/immutable", []string{"C02", "C11"}, !e.effects.GlobalWritten[tab], e.posStr(tab.Pos()),
		"the operator table is never assigned after initialisation", "binOperator is assigned somewhere")
	// the VM dispatches the whole contiguous range typeAdd..typeBitwiseOr through the table
	lo, _ := e.constInt("typeAdd")
	hi, _ := e.constInt("typeBitwiseOr")
	e.frameObl("struct:binOperator/range", []string{"C02"}, int(hi-lo)+1 == len(names), e.posStr(cl.Pos()),
		"the opcodes typeAdd..typeBitwiseOr are exactly as many as the table has entries", fmt.Sprintf("%d opcodes, %d entries", hi-lo+1, len(names)))
}

// opcodeCoverageObligations: every opcode some parser action can emit has a case in the VM's dispatch switch.
func (e *Engine) opcodeCoverageObligations() {
	info := e.P.Info
	ev := e.P.Funcs["(*Context).evaluate"]
	if ev == nil {
		return
	}
	handled := map[string]bool{}
	ast.Inspect(ev.Decl.Body, func(n ast.Node) bool {
		sw, ok := n.(*ast.SwitchStmt)
		if !ok || sw.Tag == nil {
			return true
		}
		if t := info.TypeOf(sw.Tag); t == nil || e.typeStr(t) != "CodeType" {
			return true
		}
		for _, c := range sw.Body.List {
			for _, x := range c.(*ast.CaseClause).List {
				if id, ok := x.(*ast.Ident); ok {
					handled[id.Name] = true
				}
			}
		}
		return true
	})
	// emission sites: WriteCode(typeX, ...) / AddOp(typeX) anywhere in functions reachable from the grammar actions
	var roots []*types.Func
	for _, fi := range e.P.Funcs {
		if fi.Obj != nil && fi.File == "roll.peg.go" {
			roots = append(roots, fi.Obj)
		}
	}
	reach := e.reachable(roots)
	emitted := map[string]string{}
	for fn := range reach {
		fi := e.P.FuncByObj[fn]
		if fi == nil {
			continue
		}
		ast.Inspect(fi.Decl.Body, func(n ast.Node) bool {
			ce, ok := n.(*ast.CallExpr)
			if !ok || len(ce.Args) == 0 {
				return true
			}
			se, ok := ce.Fun.(*ast.SelectorExpr)
			if !ok || (se.Sel.Name != "WriteCode" && se.Sel.Name != "AddOp") {
				return true
			}
			if id, ok := ce.Args[0].(*ast.Ident); ok {
				if c, ok := info.Uses[id].(*types.Const); ok && e.typeStr(c.Type()) == "CodeType" {
					if _, dup := emitted[id.Name]; !dup {
						emitted[id.Name] = fi.Key + "@" + e.posStr(ce.Pos())
					}
				}
			}
			return true
		})
	}
	var ops []string
	for k := range emitted {
		ops = append(ops, k)
	}
	sort.Strings(ops)
	for _, op := range ops {
		e.frameObl("struct:opcode-coverage/"+op, []string{"C02", "C08"}, handled[op], "",
			"opcode "+op+" (emitted by "+emitted[op]+") has a case in the VM", "no case for "+op+" in evaluate")
	}
}

// addPEGObligations: Engine B — the grammar table is extracted from roll.peg.go on every run.
func (e *Engine) addPEGObligations() {
	g, err := e.parsePEG()
	if err != nil {
		e.frameObl("peg:extract", []string{"C03", "C08", "C13", "C16", "C18"}, false, "", "the grammar table g can be read from roll.peg.go", err.Error())
		return
	}
	e.frameObl("peg:extract", []string{"C03", "C08", "C13", "C16", "C18"}, true, "", fmt.Sprintf("the grammar table g is read from roll.peg.go (%d rules)", len(g.Rules)), "")
	pa := &pegAnalysis{e: e, g: g, stripped: map[int]string{}}
	pa.fixpoints()
	e.addPEGAtomicity(pa)
	e.addPEGFlagObligations(pa)
	e.addPEGTyping(pa)
	e.languageObligations()
	e.stickyFlagObligations()
	e.positionWriterObligations()
	e.generatorOwnership()
	e.representationPrivacy()
	e.nativeTableObligations()
}

// languageObligations (C19): error text is rendered only in the configured language.
//
//	frame:fmtErr/language-purity        in fmtErr, the branch of one language appends no text of the other
//	frame:actions/addErr-language       parse errors raised by grammar actions consult the language setting
func (e *Engine) languageObligations() {
	fi := e.P.Funcs["fmtErr"]
	if fi == nil || fi.Decl == nil {
		e.frameObl("frame:fmtErr/language-purity", []string{"C19"}, false, "", "fmtErr exists", "function not found")
		return
	}
	hasCJK := func(s string) bool {
		for _, r := range s {
			if r >= 0x2E80 {
				return true
			}
		}
		return false
	}
	hasWord := func(s string) bool {
		run := 0
		for _, r := range s {
			if (r >= 'a' && r <= 'z') || (r >= 'A' && r <= 'Z') {
				run++
				if run >= 3 {
					return true
				}
			} else {
				run = 0
			}
		}
		return false
	}
	var bad []string
	switches := 0
	ast.Inspect(fi.Decl.Body, func(n ast.Node) bool {
		sw, ok := n.(*ast.SwitchStmt)
		if !ok {
			return true
		}
		if id, ok := sw.Tag.(*ast.Ident); !ok || id.Name != "parseErrorLanguage" {
			return true
		}
		switches++
		for _, c := range sw.Body.List {
			cc := c.(*ast.CaseClause)
			lang := ""
			for _, x := range cc.List {
				if id, ok := x.(*ast.Ident); ok {
					switch id.Name {
					case "ParseErrorLanguageChinese":
						lang = "cn"
					case "ParseErrorLanguageEnglish":
						lang = "en"
					}
				}
			}
			if lang == "" {
				continue // the bilingual default
			}
			for _, st := range cc.Body {
				ast.Inspect(st, func(m ast.Node) bool {
					switch u := m.(type) {
					case *ast.Ident:
						if lang == "cn" && u.Name == "en" {
							bad = append(bad, "the Chinese branch uses the English message at "+e.posStr(u.Pos()))
						}
						if lang == "en" && u.Name == "cn" {
							bad = append(bad, "the English branch uses the Chinese message at "+e.posStr(u.Pos()))
						}
					case *ast.BasicLit:
						if u.Kind == token.STRING {
							s, _ := strconv.Unquote(u.Value)
							if lang == "cn" && hasWord(s) {
								bad = append(bad, "the Chinese branch appends English text "+u.Value)
							}
							if lang == "en" && hasCJK(s) {
								bad = append(bad, "the English branch appends Chinese text "+u.Value)
							}
						}
					}
					return true
				})
			}
		}
		return true
	})
	e.frameObl("frame:fmtErr/language-purity", []string{"C19"}, len(bad) == 0 && switches >= 2, e.posStr(fi.Decl.Pos()),
		"in fmtErr the branch of one configured language appends no header, position or message text of the other", strings.Join(bad, "; "))
	// grammar actions: p.addErr(errors.New("...")) with a literal that exists in one language only
	var mono []string
	for _, key := range sortedKeys(e.P.Funcs) {
		f := e.P.Funcs[key]
		if !strings.HasPrefix(key, "(*parser).call_on") || f.Decl == nil || f.Decl.Body == nil {
			continue
		}
		ast.Inspect(f.Decl.Body, func(n ast.Node) bool {
			ce, ok := n.(*ast.CallExpr)
			if !ok {
				return true
			}
			se, ok := ce.Fun.(*ast.SelectorExpr)
			if !ok || se.Sel.Name != "addErr" {
				return true
			}
			ast.Inspect(ce, func(m ast.Node) bool {
				if bl, ok := m.(*ast.BasicLit); ok && bl.Kind == token.STRING {
					s, _ := strconv.Unquote(bl.Value)
					if hasCJK(s) != hasWord(s) || (hasCJK(s) && !strings.Contains(f.Decl.Name.Name, "")) {
						if hasCJK(s) && !hasWord(s) {
							mono = append(mono, strings.TrimPrefix(key, "(*parser).")+": Chinese only "+bl.Value)
						} else if hasWord(s) && !hasCJK(s) {
							mono = append(mono, strings.TrimPrefix(key, "(*parser).")+": English only "+bl.Value)
						}
					}
				}
				return true
			})
			return true
		})
	}
	e.frameObl("frame:actions/addErr-language", []string{"C19"}, len(mono) == 0, "",
		"parse errors raised by grammar actions are available in the configured language", strings.Join(mono, "; "))
}

// positionWriterObligations (C19): the parser's position (p.pt: offset, line, col, current rune and width) is advanced
// by (*parser).read — whose contract pins down how line and col follow the text — and rewound by (*parser).restore
// from a savepoint that read produced.  read's contract speaks for the whole parser only if nobody else writes the
// position: every other assignment to p.pt or one of its fields is reported.  (Sub-VM set-up in types.go stores the
// end offset of a cached body's text; only `.pt.offset` is accepted there.)
func (e *Engine) positionWriterObligations() {
	info := e.P.Info
	var bad []string
	sites := 0
	isParserPt := func(x ast.Expr) (field string, ok bool) {
		// x is <p>.pt or <p>.pt.<f>
		se, ok2 := x.(*ast.SelectorExpr)
		if !ok2 {
			return "", false
		}
		if se.Sel.Name == "pt" {
			if t := info.TypeOf(se.X); t != nil && strings.HasSuffix(strings.TrimPrefix(e.typeStr(t), "*"), "parser") {
				return "", true
			}
			return "", false
		}
		if inner, ok3 := se.X.(*ast.SelectorExpr); ok3 && inner.Sel.Name == "pt" {
			if t := info.TypeOf(inner.X); t != nil && strings.HasSuffix(strings.TrimPrefix(e.typeStr(t), "*"), "parser") {
				return se.Sel.Name, true
			}
		}
		return "", false
	}
	for _, key := range sortedKeys(e.P.Funcs) {
		fi := e.P.Funcs[key]
		if fi.Decl == nil || fi.Decl.Body == nil || fi.File == ContractsFileName || strings.HasSuffix(fi.File, "_test.go") {
			continue
		}
		allowedAll := key == "(*parser).read" || key == "(*parser).restore"
		ast.Inspect(fi.Decl.Body, func(n ast.Node) bool {
			note := func(lhs ast.Expr) {
				f, ok := isParserPt(lhs)
				if !ok {
					return
				}
				sites++
				if allowedAll {
					return
				}
				if f == "offset" && fi.File == "types.go" {
					return
				}
				what := "p.pt"
				if f != "" {
					what += "." + f
				}
				bad = append(bad, key+" writes "+what+" at "+e.posStr(lhs.Pos()))
			}
			switch u := n.(type) {
			case *ast.AssignStmt:
				for _, l := range u.Lhs {
					note(l)
				}
			case *ast.IncDecStmt:
				note(u.X)
			}
			return true
		})
	}
	if sites == 0 {
		bad = append(bad, "no assignment to parser.pt found at all (read / restore renamed?)")
	}
	e.frameObl("frame:parser.pt/written-only-by-read-restore", []string{"C19"}, len(bad) == 0, "",
		"the parser position p.pt is assigned only by (*parser).read and (*parser).restore, whose contracts fix how offset, line and column follow the text", strings.Join(bad, "; "))
}

// representationPrivacy (C12, C02): ValueMap's contracts speak about its abstract content (vmHas / vmGet); the proof that
// every operation maintains the representation invariant covers all code only if nobody outside the type's own
// methods touches the tables.  Every selection of read / dirty / misses / mu on a ValueMap outside a method of
// ValueMap (or the spec functions of the contracts file) is reported.
func (e *Engine) representationPrivacy() {
	info := e.P.Info
	private := map[string]bool{"read": true, "dirty": true, "misses": true, "mu": true}
	var bad []string
	sites := 0
	for _, key := range sortedKeys(e.P.Funcs) {
		fi := e.P.Funcs[key]
		if fi.Decl == nil || fi.Decl.Body == nil || fi.File == ContractsFileName || strings.HasSuffix(fi.File, "_test.go") {
			continue
		}
		if strings.HasPrefix(e.posStr(fi.Decl.Pos()), ContractsFileName) {
			continue // spec functions and synthetic clause functions
		}
		own := strings.HasPrefix(key, "(*ValueMap).") || strings.HasPrefix(key, "(ValueMap).")
		ast.Inspect(fi.Decl.Body, func(n ast.Node) bool {
			se, ok := n.(*ast.SelectorExpr)
			if !ok || !private[se.Sel.Name] {
				return true
			}
			t := info.TypeOf(se.X)
			if t == nil || strings.TrimPrefix(e.typeStr(t), "*") != "ValueMap" {
				return true
			}
			sites++
			if !own {
				bad = append(bad, key+" reads or writes ValueMap."+se.Sel.Name+" at "+e.posStr(se.Pos()))
			}
			return true
		})
	}
	if sites == 0 {
		bad = append(bad, "no access to ValueMap's tables found at all (fields renamed?)")
	}
	// every method of ValueMap is under a contract that `holds` the object invariant (otherwise a method could leave
	// the tables in a state the other methods' proofs do not cover)
	var lacking []string
	nm := 0
	for _, key := range sortedKeys(e.P.Funcs) {
		if !strings.HasPrefix(key, "(*ValueMap).") {
			continue
		}
		fi := e.P.Funcs[key]
		if fi.File == ContractsFileName || strings.HasSuffix(fi.File, "_test.go") {
			continue
		}
		nm++
		c := e.P.CF.Contracts[key]
		if c == nil && fi.Obj != nil && !fi.Obj.Exported() && e.autoInlinable(fi) {
			// an unexported short helper without a contract is executed in place wherever a method calls it: it is covered
			// by its callers' proofs (clients cannot call it)
			continue
		}
		if c == nil || (len(c.Holds) == 0 && !c.Inline) {
			lacking = append(lacking, key)
		}
	}
	if nm == 0 {
		lacking = append(lacking, "no method of ValueMap found")
	}
	e.frameObl("frame:ValueMap/methods-hold-invariant", []string{"C12"}, len(lacking) == 0, "",
		"every method of ValueMap has a contract that requires and re-establishes the representation invariant (`holds`)", "without `holds`: "+strings.Join(lacking, ", "))
	e.frameObl("frame:ValueMap/representation-private", []string{"C12", "C02"}, len(bad) == 0, "",
		"ValueMap's tables (read, dirty, misses, mu) are touched only by ValueMap's own methods, so its contracts over the abstract content hold for every client", strings.Join(bad, "; "))
}

// generatorOwnership (C06): a context's generator is installed by Init (from the seed bytes) or handed down from the
// parent when a sub-VM is set up (`vm.RandSrc = <parent>.RandSrc`); running programs only draws from it.  No function
// reachable from Parse, RunAfterParsed or evaluate assigns a Context's RandSrc with anything but another context's
// RandSrc — re-deriving the generator on the run path restarts the sequence and breaks resumption from GetCurSeed.
func (e *Engine) generatorOwnership() {
	info := e.P.Info
	var roots []*types.Func
	for _, k := range []string{"(*Context).Parse", "(*Context).RunAfterParsed", "(*Context).evaluate"} {
		if fi := e.P.Funcs[k]; fi != nil && fi.Obj != nil {
			roots = append(roots, fi.Obj)
		}
	}
	// Init is the designated installer (its own contract says when it builds a generator); what only Init reaches is
	// Init's business: the walk does not go through it
	var initObj *types.Func
	if fi := e.P.Funcs["(*Context).Init"]; fi != nil {
		initObj = fi.Obj
	}
	reach := map[*types.Func]bool{}
	var walk func(f *types.Func)
	walk = func(f *types.Func) {
		if reach[f] || f == initObj {
			return
		}
		reach[f] = true
		if fe := e.effects.Local[f]; fe != nil {
			for c := range fe.Callees {
				walk(c)
			}
		}
	}
	for _, r := range roots {
		walk(r)
	}
	var bad []string
	for f := range reach {
		fi := e.P.FuncByObj[f]
		if fi == nil || fi.Decl == nil || fi.Decl.Body == nil || fi.File == ContractsFileName {
			continue
		}
		ast.Inspect(fi.Decl.Body, func(n ast.Node) bool {
			as, ok := n.(*ast.AssignStmt)
			if !ok {
				return true
			}
			for i, l := range as.Lhs {
				se, ok := l.(*ast.SelectorExpr)
				if !ok || se.Sel.Name != "RandSrc" {
					continue
				}
				if t := info.TypeOf(se.X); t == nil || strings.TrimPrefix(e.typeStr(t), "*") != "Context" {
					continue
				}
				fromParent := false
				if i < len(as.Rhs) {
					if rs, ok := as.Rhs[i].(*ast.SelectorExpr); ok && rs.Sel.Name == "RandSrc" {
						fromParent = true
					}
				}
				if !fromParent {
					bad = append(bad, fi.Key+" assigns "+e.exprStr(l)+" at "+e.posStr(l.Pos()))
				}
			}
			return true
		})
	}
	sort.Strings(bad)
	e.frameObl("frame:run-path/keeps-generator", []string{"C06"}, len(bad) == 0 && len(roots) == 3, "",
		"no function reachable from Parse / RunAfterParsed / evaluate installs a generator in a context other than by handing the parent's down to a sub-VM", strings.Join(bad, "; "))
}

// stickyFlagObligations (C07): ParserData.codeOverflow records that instructions were dropped; Parse turns it into an
// error.  The flag must be sticky: every assignment to it anywhere in the package stores the constant true.
func (e *Engine) stickyFlagObligations() {
	var bad []string
	sites := 0
	for _, key := range sortedKeys(e.P.Funcs) {
		fi := e.P.Funcs[key]
		if fi.Decl == nil || fi.Decl.Body == nil || fi.File == ContractsFileName || fi.File == GenFileName {
			continue
		}
		ast.Inspect(fi.Decl.Body, func(n ast.Node) bool {
			check := func(lhs, rhs ast.Expr) {
				se, ok := lhs.(*ast.SelectorExpr)
				if !ok || se.Sel.Name != "codeOverflow" {
					return
				}
				sites++
				if id, ok := rhs.(*ast.Ident); !ok || id.Name != "true" {
					r := "<none>"
					if rhs != nil {
						r = e.exprStr(rhs)
					}
					bad = append(bad, key+" assigns "+r+" at "+e.posStr(lhs.Pos()))
				}
			}
			switch u := n.(type) {
			case *ast.AssignStmt:
				for i, l := range u.Lhs {
					var r ast.Expr
					if len(u.Rhs) == len(u.Lhs) {
						r = u.Rhs[i]
					}
					check(l, r)
				}
			case *ast.CompositeLit:
				// a struct literal of ParserData would reset the flag
				if t := e.P.Info.TypeOf(u); t != nil && e.typeStr(t) == "ParserData" {
					for _, el := range u.Elts {
						if kv, ok := el.(*ast.KeyValueExpr); ok {
							if id, ok := kv.Key.(*ast.Ident); ok && id.Name == "codeOverflow" {
								sites++
								bad = append(bad, key+" initialises the flag in a literal at "+e.posStr(kv.Pos()))
							}
						}
					}
				}
			}
			return true
		})
	}
	e.frameObl("frame:ParserData.codeOverflow/sticky", []string{"C07"}, len(bad) == 0 && sites > 0, "",
		"the instruction-overflow flag is only ever set (every assignment stores the constant true), so an overflow in any code buffer reaches Parse", strings.Join(bad, "; "))
}

// nativeTableObligations (C01): every native function registered in builtinValues / builtinProto is under a
// contract whose precondition on the argument count is the arity the table declares for it (FuncInvokeNative
// compares len(params) with len(Params) before the call), and — for methods — whose precondition on the receiver's
// type is the prototype table it is registered in (getBindMethod binds Self to the value the method was looked up on).
func (e *Engine) nativeTableObligations() {
	info := e.P.Info
	type reg struct {
		fn    string
		arity int
		proto string
		pos   token.Pos
	}
	var regs []reg
	byName := map[string]int{} // table name -> arity (entries registered with a nil function, filled in by _init)
	for _, f := range e.P.Pkg.Syntax {
		ast.Inspect(f, func(n ast.Node) bool {
			kv, ok := n.(*ast.KeyValueExpr)
			if !ok {
				return true
			}
			// builtinProto entries: key is a VMType constant, value a call with the registrations inside
			proto := ""
			if id, ok := kv.Key.(*ast.Ident); ok && strings.HasPrefix(id.Name, "VMType") {
				proto = id.Name
			}
			ast.Inspect(kv.Value, func(m ast.Node) bool {
				cl, ok := m.(*ast.CompositeLit)
				if !ok || len(cl.Elts) != 5 {
					return true
				}
				if t := info.TypeOf(cl); t == nil || !strings.HasSuffix(e.typeStr(types.Unalias(t)), "NativeFunctionData") {
					return true
				}
				arity := -1
				if pl, ok := cl.Elts[1].(*ast.CompositeLit); ok {
					arity = len(pl.Elts)
				}
				name := ""
				if bl, ok := cl.Elts[0].(*ast.BasicLit); ok {
					name, _ = strconv.Unquote(bl.Value)
				}
				if id, ok := cl.Elts[4].(*ast.Ident); ok && id.Name != "nil" {
					regs = append(regs, reg{fn: id.Name, arity: arity, proto: proto, pos: cl.Pos()})
				} else if name != "" {
					byName[name] = arity
				}
				return false
			})
			return proto == "" // do not descend twice into proto tables
		})
	}
	// _init / _init2: builtinValues["x"] ... NativeFunc = f   and   nnf(&ndf{...}) stored into builtinProto[T]
	for _, key := range []string{"_init", "_init2"} {
		fi := e.P.Funcs[key]
		if fi == nil || fi.Decl == nil {
			continue
		}
		last := ""
		ast.Inspect(fi.Decl.Body, func(n ast.Node) bool {
			switch u := n.(type) {
			case *ast.IndexExpr:
				if id, ok := u.X.(*ast.Ident); ok && id.Name == "builtinValues" {
					if bl, ok := u.Index.(*ast.BasicLit); ok {
						last, _ = strconv.Unquote(bl.Value)
					}
				}
			case *ast.AssignStmt:
				if len(u.Lhs) == 1 && len(u.Rhs) == 1 {
					if se, ok := u.Lhs[0].(*ast.SelectorExpr); ok && se.Sel.Name == "NativeFunc" {
						if id, ok := u.Rhs[0].(*ast.Ident); ok {
							if a, ok := byName[last]; ok {
								regs = append(regs, reg{fn: id.Name, arity: a, pos: u.Pos()})
							}
						}
					}
				}
			}
			return true
		})
	}
	sort.Slice(regs, func(i, j int) bool { return regs[i].fn < regs[j].fn })
	seen := map[string]bool{}
	for _, r := range regs {
		if seen[r.fn] {
			continue
		}
		seen[r.fn] = true
		c := e.P.CF.Contracts[r.fn]
		var req []string
		if c != nil {
			for _, cl := range c.Requires {
				req = append(req, strings.ReplaceAll(cl.Text, " ", ""))
			}
		}
		all := strings.Join(req, "&&")
		okA := c != nil && strings.Contains(all, fmt.Sprintf("len(params)==%d", r.arity))
		detail := ""
		if !okA {
			detail = fmt.Sprintf("the table registers %s with %d parameter(s); its contract must require len(params) == %d", r.fn, r.arity, r.arity)
		}
		e.frameObl("native:"+r.fn+"/arity", []string{"C01", "C02"}, okA, e.posStr(r.pos),
			"the contract of native function "+r.fn+" assumes exactly the argument count its table entry declares", detail)
		if r.proto != "" && r.proto != "VMTypeComputedValue" {
			okT := c != nil && strings.Contains(all, "this.TypeId=="+r.proto)
			d2 := ""
			if !okT {
				d2 = fmt.Sprintf("%s is a method of prototype %s; its contract must require this.TypeId == %s", r.fn, r.proto, r.proto)
			}
			e.frameObl("native:"+r.fn+"/receiver", []string{"C01", "C02"}, okT, e.posStr(r.pos),
				"the contract of method "+r.fn+" assumes the receiver type of the prototype table it is registered in", d2)
		}
	}
	e.frameObl("native:tables-found", []string{"C01"}, len(seen) >= 20, "", fmt.Sprintf("the native function tables are read (%d functions)", len(seen)), "fewer than 20 registrations found")
}
