package vc

import (
	"fmt"
	"go/ast"
	"go/token"
	"go/types"
	"sort"
	"strings"
)

func (e *Engine) newFctx(fi *FuncInfo) *fctx {
	fx := &fctx{e: e, fi: fi, con: e.P.CF.Contracts[fi.Key], boxed: map[*types.Var]bool{}, counters: map[string]int{},
		callOrd: map[string]int{}, ghostVar: map[string]*types.Var{}, closureLits: map[*types.Var]*ast.FuncLit{}, callIndex: map[*ast.CallExpr]callRef{}}
	if fx.con != nil {
		// auxiliary obligations (safety, invariants, call preconditions) support every property any clause of
		// this contract is tagged with
		seen := map[string]bool{}
		add := func(ps []string) {
			for _, p := range ps {
				if !seen[p] {
					seen[p] = true
					fx.props = append(fx.props, p)
				}
			}
		}
		add(fx.con.Props)
		for _, cl := range fx.con.Requires {
			add(cl.Props)
		}
		for _, cl := range fx.con.Ensures {
			add(cl.Props)
		}
		for _, cl := range fx.con.Goals {
			add(cl.Props)
		}
		for _, l := range fx.con.Loops {
			for _, cl := range l.Invariants {
				add(cl.Props)
			}
		}
		for _, cc := range fx.con.Closures {
			for _, cl := range cc.Requires {
				add(cl.Props)
			}
			for _, cl := range cc.Ensures {
				add(cl.Props)
			}
		}
		sort.Strings(fx.props)
	}
	// closures bound once to locals
	info := e.P.Info
	ast.Inspect(fi.Decl.Body, func(n ast.Node) bool {
		switch as := n.(type) {
		case *ast.AssignStmt:
			for i, l := range as.Lhs {
				if id, ok := l.(*ast.Ident); ok && i < len(as.Rhs) {
					if lit, ok := as.Rhs[i].(*ast.FuncLit); ok {
						if v, ok := info.ObjectOf(id).(*types.Var); ok {
							fx.closureLits[v] = lit
						}
					}
				}
			}
		}
		return true
	})
	counts := map[string]int{}
	ast.Inspect(fi.Decl.Body, func(n ast.Node) bool {
		if ce, ok := n.(*ast.CallExpr); ok {
			nm := calleeName(ce)
			if nm != "" {
				counts[nm]++
				fx.callIndex[ce] = callRef{nm, counts[nm]}
			}
		}
		return true
	})
	return fx
}

// VerifyFunc generates the obligations of one function under contract.
func (e *Engine) VerifyFunc(key string) {
	fi := e.P.Funcs[key]
	if fi == nil {
		e.Unsupported[key] = append(e.Unsupported[key], "no such function")
		return
	}
	startObl := len(e.Obls)
	defer func() {
		// `advisory-safety`: the function is under contract for what its clauses state; its panic-freedom obligations
		// have the standing of the zero-annotation sweep (claimed only once they are in the ledger)
		if c := e.P.CF.Contracts[key]; c != nil && c.AdvisorySafety && len(e.Obls) >= startObl {
			for _, o := range e.Obls[startObl:] {
				if o.Canary {
					continue
				}
				k := o.Kind
				if i := strings.LastIndex(k, "/"); i >= 0 {
					k = k[i+1:]
				}
				switch k {
				case "post", "goal", "inv-init", "inv-pres", "decreases", "ghost-assert", "closure-post", "closure-requires", "peel", "assigns-at":
				default:
					o.Advisory = true
				}
			}
		}
	}()
	defer func() {
		if r := recover(); r != nil {
			if u, ok := r.(unsupported); ok {
				e.Unsupported[key] = append(e.Unsupported[key], u.msg)
				// obligations generated before leaving the subset are dropped: the function is outside reach
				e.Obls = e.Obls[:startObl]
				return
			}
			// an engine limitation surfaced as a Go panic: the function is outside reach, never "proved"
			e.Unsupported[key] = append(e.Unsupported[key], fmt.Sprintf("engine limitation: %v", r))
			e.Obls = e.Obls[:startObl]
			return
		}
	}()
	fx := e.newFctx(fi)
	e.curFx = fx
	defer func() { e.curFx = nil }()
	ts := e.ts
	st := &State{vars: map[*types.Var]*Value{}, heap: map[string]*Term{}, base: e.newBase("")}
	st.alloc = ts.Var("alloc0", SInt)
	st.assume(ts.Ge(st.alloc, ts.Int(1)))
	fx.scanBoxed(fi.Decl.Body)
	sig := fi.Obj.Type().(*types.Signature)
	bind := map[string]*Value{}
	// receiver and parameters
	var pvars []*types.Var
	if fi.Decl.Recv != nil {
		pvars = append(pvars, fx.declVars(fi.Decl.Recv)...)
	}
	pvars = append(pvars, fx.declVars(fi.Decl.Type.Params)...)
	fx.preParamAlloc = st.alloc
	// facts about allocation-initialised immutable globals (non-nil, older than anything this call allocates) are
	// stated once at entry: later reads may happen inside quantifier bodies, where nothing can be assumed
	{
		var gs []*types.Var
		for o := range e.globalsAlloc {
			gs = append(gs, o)
		}
		sort.Slice(gs, func(i, j int) bool { return gs[i].Name() < gs[j].Name() })
		for _, o := range gs {
			fx.loadGlobal(st, o)
		}
	}
	for _, v := range pvars {
		if v == nil {
			continue
		}
		val := e.havocValue(st, v.Type(), v.Name())
		if val.Tm != nil && (val.Tm.Sort == SInt || val.Tm.Sort == SBool) {
			if fx.paramTerms == nil {
				fx.paramTerms = map[string]*Term{}
			}
			fx.paramTerms[v.Name()] = val.Tm
		}
		bind[v.Name()] = val
		fx.onRead(st, val, fi.Decl)
		fx.bindVar(st, v, val)
	}
	// methods with pointer receivers require a non-nil receiver (asserted at every call site) unless `nilrecv`
	if e.implicitRecvNonNil(fi, fx.con) && fi.Decl.Recv != nil {
		if rv := fx.declVars(fi.Decl.Recv); len(rv) == 1 && rv[0] != nil {
			if b := bind[rv[0].Name()]; b != nil && b.Tm != nil {
				st.assume(ts.Ne(b.Tm, ts.Int(0)))
			}
		}
	}
	// ghost variables
	if fx.con != nil {
		for _, gv := range fx.con.GhostVars {
			init := fx.evalClauseValue(st, nil, gv.Init, bind)
			t := e.P.Info.TypeOf(gv.Init.Fn.Type.Results.List[0].Type)
			gvar := types.NewVar(token.NoPos, nil, gv.Name, t)
			fx.ghostVar[gv.Name] = gvar
			init.T = t
			st.vars[gvar] = init
			bind[gv.Name] = init
		}
		for _, cl := range fx.con.Requires {
			st.assume(fx.evalClause(st, nil, cl, bind))
		}
	}
	fx.entry = st.clone()
	fx.entryBind = bind
	fx.oldState = fx.entry
	if fx.con != nil && (fx.con.Trusted || fx.con.NoVerify) {
		e.Assumptions["contract of "+key+" is assumed (body not verified)"] = true
		return
	}
	// vacuity canary: the precondition must be satisfiable
	can := fx.assert(st, "vacuity", "requires-sat", ts.False(), fi.Decl, nil, "canary: precondition is satisfiable (must be refutable)")
	if can != nil {
		can.Canary = true
	}
	frame := &retFrame{nres: sig.Results().Len()}
	for i := 0; i < sig.Results().Len(); i++ {
		frame.resTypes = append(frame.resTypes, sig.Results().At(i).Type())
	}
	if fi.Decl.Type.Results != nil {
		for _, v := range fx.declVars(fi.Decl.Type.Results) {
			if v != nil {
				frame.results = append(frame.results, v)
				fx.bindVar(st, v, e.zeroValue(v.Type()))
			}
		}
	}
	fx.retFrames = []*retFrame{frame}
	fx.runHooks(st, "entry", 0, "", fi.Decl, nil)
	end := fx.execBlock(st, fi.Decl.Body.List)
	if !end.dead {
		var vals []*Value
		for _, v := range frame.results {
			vals = append(vals, fx.readVar(end, v))
		}
		for i := len(frame.defers) - 1; i >= 0; i-- {
			fx.runDeferred(end, frame.defers[i])
		}
		frame.rets = append(frame.rets, &retState{st: end, vals: vals, pos: fi.Decl.Body.Rbrace})
	}
	// postconditions at every return
	sort.SliceStable(frame.rets, func(i, j int) bool { return frame.rets[i].pos < frame.rets[j].pos })
	for ri, r := range frame.rets {
		if r.st.dead {
			continue
		}
		b := map[string]*Value{}
		for k, v := range bind {
			b[k] = v
		}
		for i := 0; i < sig.Results().Len() && i < len(r.vals); i++ {
			b[fmt.Sprintf("result%d", i)] = r.vals[i]
			if sig.Results().Len() == 1 {
				b["result"] = r.vals[i]
			}
			if rn := sig.Results().At(i).Name(); rn != "" && rn != "_" {
				if _, clash := bind[rn]; !clash {
					b[rn] = r.vals[i]
				}
			}
		}
		for name, gv := range fx.ghostVar {
			if v, ok := r.st.vars[gv]; ok {
				b[name] = v
			}
		}
		// function-scope locals
		if fscope := e.P.Info.Scopes[fi.Decl.Type]; fscope != nil {
			for _, nm := range fscope.Names() {
				if v, ok := fscope.Lookup(nm).(*types.Var); ok {
					if _, has := b[nm]; has {
						continue
					}
					if _, bound := r.st.vars[v]; bound {
						b[nm] = fx.readVar(r.st, v)
					}
				}
			}
		}
		retTag := fmt.Sprintf("ret%d", ri+1)
		if !r.inPeel {
			if c := fx.assert(r.st, "vacuity", retTag, ts.False(), fi.Decl, nil, "canary: return at "+e.posStr(r.pos)+" is reachable (must be refutable)"); c != nil {
				c.Canary = true
			}
		}
		// escaping values and objects written must satisfy their invariants
		fx.exitExempt = nil
		if fx.con != nil {
			for _, ex := range fx.con.Exempts {
				pv := bind[ex.Param]
				if pv == nil {
					pv = b[ex.Param] // a result name
				}
				if pv != nil && pv.Tm != nil {
					c := fx.evalClause(r.st, fx.entry, ex.Clause, b)
					if fx.exitExempt == nil {
						fx.exitExempt = map[int]*Term{}
					}
					fx.exitExempt[pv.Tm.id] = c
				}
			}
		}
		var returned []*Term
		for _, v := range r.vals {
			if v != nil && v.Tm != nil && v.Tm.Sort == SInt {
				returned = append(returned, v.Tm)
			}
		}
		fx.boundaryCheckArgs(r.st, fi.Decl, "exit/"+retTag, returned, false)
		fx.exitExempt = nil
		for _, v := range r.vals {
			fx.onEscape(r.st, v, fi.Decl, "exit/"+retTag)
		}
		if fx.con != nil {
			for _, cl := range fx.con.Ensures {
				g := fx.evalClause(r.st, fx.entry, cl, b)
				fx.assert(r.st, "post", fmt.Sprintf("%d@%s", cl.Ord, retTag), g, fi.Decl, propsOr(cl.Props, fx.props), "postcondition: "+cl.Text+" at return "+e.posStr(r.pos))
			}
			for _, cl := range fx.con.Goals {
				g := fx.evalClause(r.st, fx.entry, cl, b)
				fx.assert(r.st, "goal", fmt.Sprintf("%d@%s", cl.Ord, retTag), g, fi.Decl, propsOr(cl.Props, fx.props), "goal (not exported to callers): "+cl.Text+" at return "+e.posStr(r.pos))
			}
		}
	}
	e.Verified = append(e.Verified, key)
}

// visibleBindings maps the names visible at pos (in the function that contains pos) to their current values.
func (fx *fctx) visibleBindings(st *State, pos token.Pos) map[string]*Value {
	e := fx.e
	decl := fx.fi.Decl
	if pos < decl.Pos() || pos > decl.End() {
		for _, fi := range e.P.Funcs {
			if fi.Decl.Pos() <= pos && pos <= fi.Decl.End() {
				decl = fi.Decl
				break
			}
		}
	}
	out := map[string]*Value{}
	for _, v := range scopeVars(e.P.Info, decl, pos, e.P.Pkg.Types.Scope()) {
		if _, ok := st.vars[v]; ok {
			val := fx.readVar(st, v)
			if _, dup := out[v.Name()]; !dup {
				out[v.Name()] = val
			}
		}
	}
	for name, gv := range fx.ghostVar {
		if v, ok := st.vars[gv]; ok {
			out[name] = v
		}
	}
	return out
}

// hasHook: a ghost hook is attached to this program point.
func (fx *fctx) hasHook(where string, n int, callee string) bool {
	if fx.con == nil {
		return false
	}
	for _, h := range fx.con.Hooks {
		if h.Where == where && h.N == n && h.Callee == callee {
			return true
		}
	}
	return false
}

// runHooks executes ghost statements attached to a program point.
func (fx *fctx) runHooks(st *State, where string, n int, callee string, node ast.Node, rets []*Value) {
	if fx.con == nil || st.dead || fx.spec {
		return
	}
	e := fx.e
	for _, h := range fx.con.Hooks {
		if h.Where != where {
			continue
		}
		if where != "entry" && h.N != n {
			continue
		}
		if (where == "call" || where == "precall") && h.Callee != callee {
			continue
		}
		cl := h.Stmts
		if cl.Fn == nil {
			continue
		}
		pos := node.Pos()
		switch l := node.(type) {
		case *ast.ForStmt:
			pos = l.Body.Lbrace + 1
		case *ast.RangeStmt:
			pos = l.Body.Lbrace + 1
		}
		if where == "loopexit" {
			pos = node.End()
		}
		if where == "loopend" {
			switch l := node.(type) {
			case *ast.ForStmt:
				pos = l.Body.Rbrace
			case *ast.RangeStmt:
				pos = l.Body.Rbrace
			}
		}
		b := fx.visibleBindings(st, pos)
		if where == "precall" && fx.hookRecv != nil {
			b["recv"] = fx.hookRecv
		}
		for i, r := range rets {
			if where == "precall" {
				if r != nil {
					b[fmt.Sprintf("arg%d", i)] = r
				}
				continue
			}
			b[fmt.Sprintf("ret%d", i)] = r
			if len(rets) == 1 {
				b["ret"] = r
			}
		}
		params := fx.declVars(cl.Fn.Type.Params)
		for _, p := range params {
			if p == nil {
				continue
			}
			if v, ok := b[p.Name()]; ok {
				st.vars[p] = v
			}
		}
		saved := fx.spec
		fx.spec = true
		savedFrames := fx.retFrames
		ns := fx.execBlock(st, cl.Fn.Body.List)
		fx.retFrames = savedFrames
		fx.spec = saved
		*st = *ns
		for _, p := range params {
			if p == nil {
				continue
			}
			if gv, ok := fx.ghostVar[p.Name()]; ok {
				if v, ok := st.vars[p]; ok {
					st.vars[gv] = v
				}
			}
			delete(st.vars, p)
		}
		_ = e
	}
}

// ghostAssignedIn lists ghost variables assigned by hooks whose anchor lies inside loop statement s.
func (fx *fctx) ghostAssignedIn(s ast.Stmt) []string {
	if fx.con == nil {
		return nil
	}
	inside := func(p token.Pos) bool { return s.Pos() <= p && p <= s.End() }
	set := map[string]bool{}
	for _, h := range fx.con.Hooks {
		if h.Stmts.Fn == nil {
			continue
		}
		in := false
		switch h.Where {
		case "call", "precall":
			for ce, ref := range fx.callIndex {
				if ref.name == h.Callee && ref.n == h.N && inside(ce.Pos()) {
					in = true
				}
			}
		case "loopbegin", "loopend", "loopexit":
			if h.N >= 1 && h.N <= len(fx.fi.Loops) {
				l := fx.fi.Loops[h.N-1]
				if h.Where == "loopexit" {
					in = l != s && inside(l.Pos())
				} else {
					in = inside(l.Pos())
				}
			}
		}
		if !in {
			continue
		}
		ast.Inspect(h.Stmts.Fn.Body, func(n ast.Node) bool {
			switch a := n.(type) {
			case *ast.AssignStmt:
				for _, l := range a.Lhs {
					if id, ok := l.(*ast.Ident); ok {
						if _, isG := fx.ghostVar[id.Name]; isG {
							set[id.Name] = true
						}
					}
				}
			case *ast.IncDecStmt:
				if id, ok := a.X.(*ast.Ident); ok {
					if _, isG := fx.ghostVar[id.Name]; isG {
						set[id.Name] = true
					}
				}
			}
			return true
		})
	}
	var out []string
	for k := range set {
		out = append(out, k)
	}
	sort.Strings(out)
	return out
}
