package vc

import (
	"fmt"
	"go/ast"
	"go/token"
	"go/types"
	"os"
	"path/filepath"
	"runtime/debug"
	"sort"
	"strings"
)

// Obligation is one proof goal: Assumes ⊢ Goal.
type Obligation struct {
	Name    string
	Func    string
	Kind    string
	Props   []string
	Assumes []*Term
	Goal    *Term
	Pos     string
	Desc    string
	// results
	Status  string // proved, failed, undecided
	Solver  string
	Secs    float64
	Model   string
	Output  string
	SMTSize int
	Canary  bool // expected to be refutable (vacuity guard)
	Lemma   *Lemma
	// replay support
	ModelVars map[string]*Term // name -> term whose model value is wanted
	Forced    string           // status decided outside the solver (grammar obligations: witness search on the real code)
	Replay    *ReplayResult    // replay already performed (grammar witnesses)
	Witness   string           // grammar witnesses: the failing input
	Advisory  bool             // zero-annotation sweep obligation (claimed only when in the ledger)
	Inlined   bool             // generated inside the body of an uncontracted helper executed in place (advisory, but a NEW failing family is reported)
}

type Engine struct {
	P             *Program
	ts            *TermStore
	Obls          []*Obligation
	tags          map[string]int
	tagNames      map[int]string
	anonStructs   map[string]string
	baseSeq       int
	strLits       map[string]*Term
	fltLits       map[string]*Term
	Unsupported   map[string][]string // func key -> reasons (outside reach)
	Assumptions   map[string]bool     // trusted facts used (externals etc.)
	Verified      []string            // functions under contract whose body was verified
	effects       *EffectInfo
	globalsInit   map[*types.Var]*ast.CompositeLit
	curFx         *fctx
	Debug         bool
	typeInvs      map[string]*typeInvInfo
	boxMode       int
	pegFacts      map[string]*actionFacts
	heapIds       map[int]*Term // heap-id constant (by term id of the id constant) -> array term
	heapIdOf      map[int]*Term // array term id -> heap-id constant
	autoInl       map[*FuncInfo]bool
	mapTypesCache []*types.Map
	ambiguous     map[string]bool     // owner.field pairs whose nested struct fields are keyed with a path qualifier (values.go)
	globalsAlloc  map[*types.Var]bool // package-level variables initialised by an allocation (new / &T{})
}

// heapID names an array term by an integer constant, so that spec functions over heaps (psum) do not take
// array-sorted arguments (which would drag the solvers into extensionality reasoning).
func (e *Engine) heapID(h *Term) *Term {
	if e.heapIdOf == nil {
		e.heapIdOf = map[int]*Term{}
		e.heapIds = map[int]*Term{}
	}
	if id, ok := e.heapIdOf[h.id]; ok {
		return id
	}
	id := e.ts.Var(fmt.Sprintf("hid%d", h.id), SInt)
	e.heapIdOf[h.id] = id
	e.heapIds[id.id] = h
	return id
}

func (e *Engine) psumTerm(h, p, n *Term) *Term {
	return e.ts.App("psum", SInt, e.heapID(h), p, n)
}

func NewEngine(p *Program) *Engine {
	e := &Engine{P: p, ts: NewTermStore(), tags: map[string]int{}, tagNames: map[int]string{}, anonStructs: map[string]string{},
		strLits: map[string]*Term{}, fltLits: map[string]*Term{}, Unsupported: map[string][]string{}, Assumptions: map[string]bool{},
		globalsInit: map[*types.Var]*ast.CompositeLit{}}
	e.collectGlobalInits()
	return e
}

// isAllocExpr: new(T), &T{...}, or a conversion / parenthesisation of one (e.g. unsafe.Pointer(new(T))).
func isAllocExpr(x ast.Expr) bool {
	switch y := x.(type) {
	case *ast.ParenExpr:
		return isAllocExpr(y.X)
	case *ast.UnaryExpr:
		if y.Op == token.AND {
			_, ok := y.X.(*ast.CompositeLit)
			return ok
		}
	case *ast.CallExpr:
		if id, ok := y.Fun.(*ast.Ident); ok && id.Name == "new" && len(y.Args) == 1 {
			return true
		}
		if len(y.Args) == 1 {
			// conversion T(x) of an allocation (the caller only uses this for pointer-like globals)
			switch f := y.Fun.(type) {
			case *ast.SelectorExpr:
				if f.Sel.Name == "Pointer" {
					return isAllocExpr(y.Args[0])
				}
			case *ast.ParenExpr:
				return isAllocExpr(y.Args[0])
			}
		}
	}
	return false
}

func (e *Engine) collectGlobalInits() {
	for _, f := range e.P.Pkg.Syntax {
		for _, d := range f.Decls {
			gd, ok := d.(*ast.GenDecl)
			if !ok || gd.Tok != token.VAR {
				continue
			}
			for _, sp := range gd.Specs {
				vs := sp.(*ast.ValueSpec)
				for i, n := range vs.Names {
					if i < len(vs.Values) {
						if cl, ok := vs.Values[i].(*ast.CompositeLit); ok {
							if v, ok := e.P.Info.Defs[n].(*types.Var); ok {
								e.globalsInit[v] = cl
							}
						}
						if isAllocExpr(vs.Values[i]) {
							if v, ok := e.P.Info.Defs[n].(*types.Var); ok {
								if e.globalsAlloc == nil {
									e.globalsAlloc = map[*types.Var]bool{}
								}
								e.globalsAlloc[v] = true
							}
						}
					}
				}
			}
		}
	}
}

type unsupported struct{ msg string }

func (e *Engine) unsup(n ast.Node, format string, a ...any) {
	pos := ""
	if n != nil {
		pos = e.posStr(n.Pos()) + ": "
	}
	panic(unsupported{pos + fmt.Sprintf(format, a...)})
}

func (e *Engine) posStr(p token.Pos) string {
	ps := e.P.Fset.Position(p)
	return fmt.Sprintf("%s:%d", filepath.Base(ps.Filename), ps.Line)
}

// fctx is the context of one function under verification.
type fctx struct {
	e             *Engine
	fi            *FuncInfo
	con           *Contract
	entry         *State
	returns       []*retState
	boxed         map[*types.Var]bool
	counters      map[string]int
	loopOrd       map[ast.Stmt]int
	callOrd       map[string]int
	ghost         map[string]*Value // ghost variables by name (values live in State via ghostVars)
	ghostVar      map[string]*types.Var
	props         []string
	resultVars    []*types.Var
	caseLabel     string
	jumps         []*jumpFrame
	spec          bool
	inlineDepth   int
	oldState      *State
	retFrames     []*retFrame
	pendingLabel  string
	closureLits   map[*types.Var]*ast.FuncLit
	callIndex     map[*ast.CallExpr]callRef
	inClause      bool
	paramTerms    map[string]*Term
	inGlobalInv   bool
	inTypeInv     bool
	rawAccess     bool
	rawCond       *Term // with rawAccess: the access is raw only under this condition (nil = always)
	loopPre       []*State
	tailSwitch    ast.Stmt
	protected     []protRegion
	protCells     []protCell
	rangeSeen     []*types.Var // seen-set variables of the enclosing modelled range loops
	lastRangeSeen *types.Var
	entryBind     map[string]*Value // parameter values at entry, by name
	atOrd         int
	autoInline    int
	preParamAlloc *Term // allocation frontier before the parameters were bound (boxed parameters live above it)
	inPeel        int
	litDone       map[*ast.FuncLit]bool
	hookRecv      *Value        // receiver of the call whose precall hooks are running (bound as `recv`)
	localAddr     map[int]bool  // addresses of boxed local variables (by term id)
	exitExempt    map[int]*Term // object address (term id) -> condition under which its invariant may be violated at this return
	madeSlices    map[int]bool  // base addresses of slices allocated with make() in this frame (by term id)
}

// nonNilElem: slices of this element type hold no nil once they are visible outside the frame that built them.
func (e *Engine) nonNilElem(t types.Type) bool {
	if t == nil {
		return false
	}
	s := e.typeStr(t)
	for _, x := range e.P.CF.NonNilElems {
		if x == s {
			return true
		}
	}
	return false
}

func (fx *fctx) isMade(ptr *Term) bool {
	if fx.madeSlices == nil {
		return false
	}
	if fx.madeSlices[ptr.id] {
		return true
	}
	// a sub-slice or a merge of a made slice
	found := false
	var walk func(t *Term, depth int)
	walk = func(t *Term, depth int) {
		if found || depth > 6 {
			return
		}
		if fx.madeSlices[t.id] {
			found = true
			return
		}
		if t.Op == "ite" || t.Op == "+" {
			for _, a := range t.Args {
				walk(a, depth+1)
			}
		}
	}
	walk(ptr, 0)
	return found
}

// publishSlice: a slice built in this frame with make() becomes visible to others: all its elements must be non-nil.
func (fx *fctx) publishSlice(st *State, v *Value, n ast.Node, how string) {
	if v == nil || v.Sl == nil || fx.spec || st.dead {
		return
	}
	sl, ok := v.T.Underlying().(*types.Slice)
	if !ok || !fx.e.nonNilElem(sl.Elem()) || !fx.isMade(v.Sl.Ptr) {
		return
	}
	e := fx.e
	ts := e.ts
	k := ts.BoundVar("pe", SInt)
	h := e.heapGet(st, e.elemKey(sl.Elem()), ArrSort(SInt))
	g := ts.Forall([]*Term{k}, ts.Implies(ts.And(ts.Le(ts.Int(0), k), ts.Lt(k, v.Sl.Len)), ts.Ne(ts.Select(h, ts.Add(v.Sl.Ptr, k)), ts.Int(0))))
	fx.assert(st, "elems-nonnil", how, g, n, nil, "a slice built in this frame holds no nil element when it becomes visible ("+how+")")
	st.assume(g)
}

// protCell: a field of one object that callees do not modify; see ghostProtectFields.
type protCell struct {
	addr *Term
	key  string
	t    types.Type
}

// protRegion: a slice whose elements no callee (and no host callback) modifies; see ghostProtect.
type protRegion struct {
	ptr, n *Term
	elemT  types.Type
	fields []string // nil = all fields
}

type callRef struct {
	name string
	n    int
}

type retState struct {
	st     *State
	vals   []*Value
	pos    token.Pos
	inPeel bool // return inside a `peel` loop: may be legitimately unreachable in a sequential execution (retry paths)
}

type retFrame struct {
	rets     []*retState
	results  []*types.Var // named results of the inlined function, if any
	defers   []*ast.CallExpr
	nres     int
	resTypes []types.Type
}

type jumpFrame struct {
	label  string
	breaks []*State
	conts  []*State
	isLoop bool
}

func (fx *fctx) oblName(kind, detail string) string {
	base := fx.fi.File + ":" + fx.fi.Key + "/"
	if fx.caseLabel != "" {
		base += "case:" + fx.caseLabel + "/"
	}
	k := kind
	if detail != "" {
		k += ":" + detail
	}
	fx.counters[base+k]++
	return fmt.Sprintf("%s%s#%d", base, k, fx.counters[base+k])
}

func abbrev(s string) string {
	s = strings.Join(strings.Fields(s), "")
	if len(s) > 40 {
		s = s[:40]
	}
	return s
}

// assert records an obligation under the current path condition.
func (fx *fctx) assert(st *State, kind, detail string, goal *Term, n ast.Node, props []string, desc string) *Obligation {
	if st.dead {
		return nil
	}
	if fx.spec {
		return nil
	}
	name := fx.oblName(kind, detail)
	if props == nil {
		props = fx.props
	}
	if goal.IsTrue() {
		// decided by the term simplifier: recorded (so that the set of obligation names does not depend on how
		// much the simplifier can see), no solver work
		pos := ""
		if n != nil {
			pos = fx.e.posStr(n.Pos())
		}
		o := &Obligation{Name: name, Func: fx.fi.Key, Kind: kind, Props: props, Goal: goal, Pos: pos, Desc: desc, Status: "proved", Solver: "simplifier"}
		fx.e.Obls = append(fx.e.Obls, o)
		return o
	}
	pos := ""
	if n != nil {
		pos = fx.e.posStr(n.Pos())
	}
	o := &Obligation{Name: name, Func: fx.fi.Key, Kind: kind, Props: props, Assumes: append([]*Term{}, st.pc...), Goal: goal, Pos: pos, Desc: desc, ModelVars: fx.paramTerms}
	fx.e.Obls = append(fx.e.Obls, o)
	return o
}

// check asserts and then assumes the goal (so later obligations are independent of this one).
func (fx *fctx) check(st *State, kind, detail string, goal *Term, n ast.Node, desc string) {
	if fx.spec {
		// specifications are not checked for definedness and must not add facts
		return
	}
	if goal.IsFalse() && os.Getenv("DSVC_DEBUG") != "" {
		fmt.Fprintf(os.Stderr, "DEBUG constant-false check %s %s at %s\n", kind, detail, fx.e.posStr(n.Pos()))
		debug.PrintStack()
	}
	fx.assert(st, kind, detail, goal, n, nil, desc)
	st.assume(goal)
}

func sortedKeys[V any](m map[string]V) []string {
	var ks []string
	for k := range m {
		ks = append(ks, k)
	}
	sort.Strings(ks)
	return ks
}
