package vc

import (
	"fmt"
	"go/ast"
	"os"
	"sort"
	"strconv"
	"strings"
)

// Flag dominance (C16) and st-command confinement (C18) over the grammar table.
//
// A configuration predicate `&{return [!]c.data.Config.F}` that succeeded establishes the fact F=true (F=false).
// The fact holds for the elements that follow it in its sequence (and inside the rules they reference) until an
// action writes F.  Obligation: every action that emits an opcode of a dice family runs only where the family's
// enabling flag is known to be true; every action that emits a statement construct (blocks, loops, function
// definitions, return) runs only where DisableStmts is known to be false.  Facts at a rule's entry are the
// intersection over all its (non-look-ahead) reference sites, computed as a greatest fixpoint.

type flagFacts map[string]bool // "F=true" / "F=false"

func (f flagFacts) clone() flagFacts {
	o := flagFacts{}
	for k := range f {
		o[k] = true
	}
	return o
}

func (f flagFacts) meet(g flagFacts) flagFacts {
	o := flagFacts{}
	for k := range f {
		if g[k] {
			o[k] = true
		}
	}
	return o
}

func (f flagFacts) key() string {
	var ks []string
	for k := range f {
		ks = append(ks, k)
	}
	sort.Strings(ks)
	return strings.Join(ks, ",")
}

func (f flagFacts) dropFlag(name string) {
	delete(f, name+"=true")
	delete(f, name+"=false")
}

type flagAnalysis struct {
	pa      *pegAnalysis
	entry   map[*pegRule]flagFacts // nil = not reached yet (top)
	writes  map[*pegRule]map[string]bool
	report  bool
	changed bool
	emit    func(n *pegNode, path string, facts flagFacts)
	onRef   func(n *pegNode, path string, facts flagFacts)
}

// opcode -> fact required where it is emitted
func familyFactOfOp(op string) string {
	switch {
	case op == "typeDiceCocBonus" || op == "typeDiceCocPenalty":
		return "EnableDiceCoC=true"
	case strings.HasPrefix(op, "typeWod") || op == "typeDiceWod":
		return "EnableDiceWoD=true"
	case strings.HasPrefix(op, "typeDCSet") || op == "typeDiceDC":
		return "EnableDiceDoubleCross=true"
	case op == "typeDiceFate":
		return "EnableDiceFate=true"
	case op == "typeBlockPush" || op == "typeReturn" || op == "typePushFunction":
		return "DisableStmts=false"
	case op == "typeBitwiseAnd" || op == "typeBitwiseOr":
		return "DisableBitwiseOp=false?" // documented switch, checked as a weaker fact below
	}
	return ""
}

func familyFactOfCall(m string) string {
	switch m {
	case "AddStoreFunction", "LoopBegin":
		return "DisableStmts=false"
	}
	return ""
}

// flag writes of a rule (transitively), from the action facts
func (fa *flagAnalysis) ruleWrites(r *pegRule, seen map[*pegRule]bool) map[string]bool {
	if w, ok := fa.writes[r]; ok {
		return w
	}
	if seen[r] {
		return nil
	}
	seen[r] = true
	w := map[string]bool{}
	var visit func(n *pegNode)
	visit = func(n *pegNode) {
		switch n.Kind {
		case pkAnd, pkNot:
			return // skip mode
		case pkAction, pkCode:
			af := fa.pa.e.actionFactsOf(n.Fn)
			for _, f := range af.FlagWrites {
				w[f] = true
			}
			for _, c := range af.Calls {
				if c == "FlagsPop" {
					w["*"] = true
				}
			}
		case pkRef:
			for f := range fa.ruleWrites(fa.pa.g.Rules[n.Ref], seen) {
				w[f] = true
			}
		}
		for _, k := range n.Kids {
			visit(k)
		}
	}
	visit(r.Expr)
	fa.writes[r] = w
	return w
}

func (fa *flagAnalysis) applyWrites(f flagFacts, w map[string]bool) {
	if w["*"] {
		for k := range f {
			delete(f, k)
		}
		return
	}
	for name := range w {
		f.dropFlag(name)
	}
}

// walk returns the facts after n succeeded.
func (fa *flagAnalysis) walk(n *pegNode, path string, in flagFacts) flagFacts {
	pa := fa.pa
	switch n.Kind {
	case pkSeq:
		cur := in
		for i, k := range n.Kids {
			cur = fa.walk(k, fmt.Sprintf("%s.%d", path, i), cur)
		}
		return cur
	case pkChoice:
		var out flagFacts
		for i, k := range n.Kids {
			o := fa.walk(k, fmt.Sprintf("%s.%d", path, i), in.clone())
			if out == nil {
				out = o
			} else {
				out = out.meet(o)
			}
		}
		if out == nil {
			return in
		}
		return out
	case pkStar, pkPlus, pkOpt:
		// the body may run any number of times: facts that survive one iteration started from the meet
		body := fa.walk(n.Kids[0], path+".0", in.clone())
		m := in.meet(body)
		if m.key() != in.key() {
			body = fa.walk(n.Kids[0], path+".0", m.clone())
			m = m.meet(body)
		}
		if n.Kind == pkPlus {
			return m
		}
		return m
	case pkAnd, pkNot:
		return in
	case pkAndCode, pkNotCode:
		af := pa.e.actionFactsOf(n.Fn)
		out := in.clone()
		if af.ReadsFlag != "" {
			val := !af.FlagNeg
			if n.Kind == pkNotCode {
				val = !val
			}
			out[fmt.Sprintf("%s=%v", af.ReadsFlag, val)] = true
		}
		return out
	case pkLabeled:
		return fa.walk(n.Kids[0], path, in)
	case pkAction:
		out := fa.walk(n.Kids[0], path, in)
		return fa.code(n, path, out)
	case pkCode:
		return fa.code(n, path, in)
	case pkRef:
		r := pa.g.Rules[n.Ref]
		if fa.report && fa.onRef != nil {
			fa.onRef(n, path, in)
		}
		if cur, ok := fa.entry[r]; !ok {
			fa.entry[r] = in.clone()
			fa.changed = true
		} else {
			m := cur.meet(in)
			if m.key() != cur.key() {
				fa.entry[r] = m
				fa.changed = true
			}
		}
		out := in.clone()
		fa.applyWrites(out, fa.ruleWrites(r, map[*pegRule]bool{}))
		return out
	}
	return in
}

func (fa *flagAnalysis) code(n *pegNode, path string, in flagFacts) flagFacts {
	af := fa.pa.e.actionFactsOf(n.Fn)
	if fa.report && fa.emit != nil {
		fa.emit(n, path, in)
	}
	out := in.clone()
	w := map[string]bool{}
	for _, f := range af.FlagWrites {
		if f != "*" {
			w[f] = true
		}
	}
	for _, c := range af.Calls {
		if c == "FlagsPop" {
			w["*"] = true
		}
	}
	fa.applyWrites(out, w)
	if os.Getenv("DSVC_PEG_DEBUG") != "" && n.Rule.Name == "est" {
		fmt.Fprintf(os.Stderr, "FLAGCODE %s %s sets=%v writes=%v calls=%v in=%s\n", path, n.Fn, af.FlagSets, af.FlagWrites, af.Calls, in.key())
	}
	if !w["*"] {
		for f, v := range af.FlagSets {
			out[fmt.Sprintf("%s=%v", f, v)] = true
		}
	}
	return out
}

func (e *Engine) addPEGFlagObligations(pa *pegAnalysis) {
	fa := &flagAnalysis{pa: pa, entry: map[*pegRule]flagFacts{}, writes: map[*pegRule]map[string]bool{}}
	start := pa.g.ByName["dicescript"]
	if start == nil {
		return
	}
	fa.entry[start] = flagFacts{}
	// CustomDiceStream.ReadExpr parses from exprRoot with the configuration of the running parser: no facts
	if r := pa.g.ByName["exprRoot"]; r != nil {
		fa.entry[r] = flagFacts{}
	}
	for round := 0; round < 50; round++ {
		fa.changed = false
		for _, r := range pa.g.Rules {
			if in, ok := fa.entry[r]; ok {
				fa.walk(r.Expr, r.Name, in.clone())
			}
		}
		if !fa.changed {
			break
		}
	}
	// report
	fa.report = true
	type need struct{ path, what, fact string }
	seen := map[string]bool{}
	stOps := map[string]bool{"typeStSetName": true, "typeStModify": true, "typeStX0": true, "typeStX1": true}
	var stSites []string
	fa.emit = func(n *pegNode, path string, facts flagFacts) {
		af := pa.e.actionFactsOf(n.Fn)
		var needs []need
		for _, op := range af.Ops {
			if f := familyFactOfOp(op); f != "" && !strings.HasSuffix(f, "?") {
				needs = append(needs, need{path, op, f})
			}
			if stOps[op] {
				stSites = append(stSites, n.Rule.Name)
			}
		}
		for _, c := range af.Calls {
			if f := familyFactOfCall(c); f != "" {
				needs = append(needs, need{path, c, f})
			}
			if c == "AddStName" || c == "AddStModify" {
				stSites = append(stSites, n.Rule.Name)
			}
		}
		for _, nd := range needs {
			name := fmt.Sprintf("peg:%s/flag:%s@%s", path, nd.fact, strings.TrimPrefix(nd.what, "type"))
			if seen[name] {
				continue
			}
			seen[name] = true
			ok := facts[nd.fact]
			detail := ""
			if !ok {
				detail = fmt.Sprintf("the action at %s emits %s but the configuration fact %s is not established on every path to it (facts known here: {%s})", path, nd.what, nd.fact, facts.key())
			}
			e.frameObl(name, []string{"C16"}, ok, "", "emission of "+nd.what+" is dominated by the configuration predicate "+nd.fact, detail)
		}
	}
	// scoped switches (C18): `var pegScopedFlags = []string{"<rule>><target>: F=v ..."}` in the contracts file: inside <rule>,
	// every (non-look-ahead) reference to <target> is entered with the listed facts, unless the alternative it belongs to
	// begins with the look-ahead of the literal "(" (a parenthesised value delimits itself).
	scoped := e.pegScopedFlags()
	scopedSeen := map[string]int{}
	fa.onRef = func(n *pegNode, path string, facts flagFacts) {
		for _, sc := range scoped {
			if n.Rule.Name != sc.rule || pa.g.Rules[n.Ref].Name != sc.target {
				continue
			}
			if pa.underParenGuard(n) {
				continue
			}
			scopedSeen[sc.rule+">"+sc.target]++
			for _, f := range sc.facts {
				name := fmt.Sprintf("peg:%s/scoped-flag:%s@%s", path, f, sc.target)
				if seen[name] {
					continue
				}
				seen[name] = true
				ok := facts[f]
				detail := ""
				if !ok {
					detail = fmt.Sprintf("rule %s enters %s at %s without the configuration fact %s (facts known here: {%s})", sc.rule, sc.target, path, f, facts.key())
				}
				e.frameObl(name, []string{"C18", "C16"}, ok, "", "inside "+sc.rule+", "+sc.target+" is parsed with "+f, detail)
			}
		}
	}
	for _, r := range pa.g.Rules {
		if in, ok := fa.entry[r]; ok {
			fa.walk(r.Expr, r.Name, in.clone())
		}
	}
	for _, sc := range scoped {
		if scopedSeen[sc.rule+">"+sc.target] == 0 {
			e.frameObl("peg:"+sc.rule+"/scoped-flag:found@"+sc.target, []string{"C18", "C16"}, false, "", "rule "+sc.rule+" references "+sc.target+" outside a parenthesis guard", "no such reference found (grammar changed?)")
		}
	}
	e.addDigitFreeObligations(pa)
	e.addAltOrderObligations(pa)
	e.addLetterFreeObligations(pa)
	e.addKeywordBoundaryObligations(pa)
	e.addClassExcludesObligations(pa)
	// C18: st.* instructions are emitted only by rules that are reachable solely through the "^st" alternative
	e.addStConfinement(pa, uniq(stSites))
}

// addStConfinement: every rule that emits an st.* instruction is reachable from the start rule only through the
// sequence `"^st" st_expr`.
func (e *Engine) addStConfinement(pa *pegAnalysis, stRules []string) {
	start := pa.g.ByName["dicescript"]
	// reachability that does not pass through a sequence beginning with the literal "^st"
	reach := map[*pegRule]bool{}
	var visit func(n *pegNode)
	var visitRule func(r *pegRule)
	visit = func(n *pegNode) {
		switch n.Kind {
		case pkSeq:
			if len(n.Kids) > 0 && n.Kids[0].Kind == pkLit && n.Kids[0].Text == "^st" {
				return
			}
		case pkAnd, pkNot:
			return
		case pkRef:
			visitRule(pa.g.Rules[n.Ref])
			return
		}
		for _, k := range n.Kids {
			visit(k)
		}
	}
	visitRule = func(r *pegRule) {
		if reach[r] {
			return
		}
		reach[r] = true
		visit(r.Expr)
	}
	if start != nil {
		visitRule(start)
	}
	if r := pa.g.ByName["exprRoot"]; r != nil {
		visitRule(r)
	}
	sort.Strings(stRules)
	for _, name := range stRules {
		r := pa.g.ByName[name]
		ok := r != nil && !reach[r]
		detail := ""
		if !ok {
			detail = "rule " + name + " emits an st.* instruction and is reachable without the \"^st\" prefix"
		}
		e.frameObl("peg:"+name+"/st-only-under-^st", []string{"C18"}, ok, "", "rule "+name+" (emits st.* instructions) is reachable only through the \"^st\" alternative of stmtSt", detail)
	}
	if len(stRules) == 0 {
		e.frameObl("peg:st-rules-found", []string{"C18"}, false, "", "the grammar has rules that emit st.* instructions", "no action emitting typeStSetName/typeStModify/typeStX0/typeStX1 (directly or through AddStName/AddStModify) was found")
	}
}

type scopedFlag struct {
	rule, target string
	facts        []string
}

func (e *Engine) pegScopedFlags() []scopedFlag {
	var out []scopedFlag
	for v, lit := range e.globalsInit {
		if v.Name() != "pegScopedFlags" {
			continue
		}
		for _, el := range lit.Elts {
			bl, ok := el.(*ast.BasicLit)
			if !ok {
				continue
			}
			s, err := strconv.Unquote(bl.Value)
			if err != nil {
				continue
			}
			k := strings.Index(s, ":")
			if k < 0 {
				continue
			}
			rt := strings.SplitN(strings.TrimSpace(s[:k]), ">", 2)
			if len(rt) != 2 {
				continue
			}
			out = append(out, scopedFlag{rule: rt[0], target: rt[1], facts: strings.Fields(s[k+1:])})
		}
	}
	sort.Slice(out, func(i, j int) bool { return out[i].rule+out[i].target < out[j].rule+out[j].target })
	return out
}

// underParenGuard: the nearest enclosing sequence of n (within its rule) begins with the look-ahead &"(".
func (pa *pegAnalysis) underParenGuard(n *pegNode) bool {
	var find func(cur *pegNode, guarded bool) (bool, bool)
	find = func(cur *pegNode, guarded bool) (bool, bool) {
		if cur == n {
			return true, guarded
		}
		g := guarded
		if cur.Kind == pkSeq && len(cur.Kids) > 0 {
			if k := cur.Kids[0]; k.Kind == pkAnd && len(k.Kids) == 1 && k.Kids[0].Kind == pkLit && k.Kids[0].Text == "(" {
				g = true
			}
		}
		if cur.Kind == pkAnd || cur.Kind == pkNot {
			return false, false
		}
		for _, k := range cur.Kids {
			if f, gg := find(k, g); f {
				return true, gg
			}
		}
		return false, false
	}
	_, g := find(n.Rule.Expr, false)
	return g
}

// addDigitFreeObligations (C18): `var pegDigitFree = []string{"<rule>[.<alt>...]"}` in the contracts file names grammar
// sub-expressions that must not be able to consume an ASCII digit — the unquoted attribute-name tokens of the st command,
// which end where a number begins (`力量60` is the name 力量 and the value 60).  Decided on the grammar table: no literal
// with a digit, no character class that admits one ([0-9], \d, \p{N}, \p{Nd}, an inverted class), no `.`, following rule references.
func (e *Engine) addDigitFreeObligations(pa *pegAnalysis) {
	var paths []string
	for v, lit := range e.globalsInit {
		if v.Name() != "pegDigitFree" {
			continue
		}
		for _, el := range lit.Elts {
			if bl, ok := el.(*ast.BasicLit); ok {
				if s, err := strconv.Unquote(bl.Value); err == nil {
					paths = append(paths, s)
				}
			}
		}
	}
	sort.Strings(paths)
	for _, path := range paths {
		parts := strings.Split(path, ".")
		r := pa.g.ByName[parts[0]]
		name := "peg:" + path + "/digit-free"
		if r == nil {
			e.frameObl(name, []string{"C18"}, false, "", "grammar element "+path+" exists", "no rule "+parts[0])
			continue
		}
		n := r.Expr
		ok := true
		for _, ps := range parts[1:] {
			k, err := strconv.Atoi(ps)
			// look through wrappers that have a single child
			for n != nil && (n.Kind == pkLabeled || n.Kind == pkAction) && len(n.Kids) == 1 && n.Kind != pkChoice {
				n = n.Kids[0]
			}
			if err != nil || n == nil || k < 0 || k >= len(n.Kids) {
				ok = false
				break
			}
			n = n.Kids[k]
		}
		if !ok {
			e.frameObl(name, []string{"C18"}, false, "", "grammar element "+path+" exists", "path does not exist in the grammar table")
			continue
		}
		why := pa.mayConsumeDigit(n, map[*pegRule]bool{})
		e.frameObl(name, []string{"C18"}, why == "", "", "the unquoted st name token "+path+" cannot consume a digit (a name ends where a number begins)", why)
	}
}

// mayConsumeDigit returns "" when n cannot consume an ASCII digit, else a reason.
func (pa *pegAnalysis) mayConsumeDigit(n *pegNode, seen map[*pegRule]bool) string {
	switch n.Kind {
	case pkAnd, pkNot, pkAndCode, pkNotCode, pkCode:
		return ""
	case pkAny:
		return "`.` matches any character"
	case pkLit:
		if strings.ContainsAny(n.Text, "0123456789") {
			return "literal " + strconv.Quote(n.Text) + " contains a digit"
		}
		return ""
	case pkClass:
		if classAdmitsDigit(n.Text) {
			return "character class " + n.Text + " admits a digit"
		}
		return ""
	case pkRef:
		r := pa.g.Rules[n.Ref]
		if seen[r] {
			return ""
		}
		seen[r] = true
		return pa.mayConsumeDigit(r.Expr, seen)
	}
	for _, k := range n.Kids {
		if w := pa.mayConsumeDigit(k, seen); w != "" {
			return w
		}
	}
	return ""
}

// classAdmitsDigit: a pigeon character class text such as [_$\p{L}\p{Other_ID_Start}] or [0-9a-f]i.
func classAdmitsDigit(text string) bool {
	t := text
	if i := strings.LastIndex(t, "]"); i >= 0 {
		t = t[:i]
	}
	t = strings.TrimPrefix(t, "[")
	if strings.HasPrefix(t, "^") {
		return true // inverted class: admits whatever it does not exclude; treated as admitting digits
	}
	rs := []rune(t)
	for i := 0; i < len(rs); i++ {
		c := rs[i]
		if c == '\\' && i+1 < len(rs) {
			switch rs[i+1] {
			case 'd':
				return true
			case 'p', 'P':
				// \pN or \p{Name}
				j := i + 2
				name := ""
				if j < len(rs) && rs[j] == '{' {
					k := j + 1
					for k < len(rs) && rs[k] != '}' {
						k++
					}
					name = string(rs[j+1 : k])
					i = k
				} else if j < len(rs) {
					name = string(rs[j])
					i = j
				}
				if rs[i-len([]rune(name))-1] == 'P' || name == "N" || name == "Nd" || name == "Number" || name == "Decimal_Number" || name == "Digit" || strings.HasPrefix(name, "Other_ID_Continue") {
					return true
				}
				continue
			default:
				i++
				continue
			}
		}
		// range a-b
		if i+2 < len(rs) && rs[i+1] == '-' {
			lo, hi := c, rs[i+2]
			if lo <= '9' && hi >= '0' {
				return true
			}
			i += 2
			continue
		}
		if c >= '0' && c <= '9' {
			return true
		}
	}
	return false
}

// addAltOrderObligations (C18): `var pegAltBefore = []string{"<rule>: <A> before <B>"}` — in the ordered choice of <rule>,
// every alternative whose first consuming element is a reference to rule A comes before every alternative that starts
// with rule B.  PEG choice is ordered: when B can match a prefix of what A matches (a plain name is a prefix of a
// namespaced name `ns:name`), trying B first splits the longer token.
func (e *Engine) addAltOrderObligations(pa *pegAnalysis) {
	var specs []string
	for v, lit := range e.globalsInit {
		if v.Name() != "pegAltBefore" {
			continue
		}
		for _, el := range lit.Elts {
			if bl, ok := el.(*ast.BasicLit); ok {
				if s, err := strconv.Unquote(bl.Value); err == nil {
					specs = append(specs, s)
				}
			}
		}
	}
	sort.Strings(specs)
	for _, sp := range specs {
		k := strings.Index(sp, ":")
		f := strings.Fields(sp[k+1:])
		rule := strings.TrimSpace(sp[:max(k, 0)])
		name := "peg:" + rule + "/alt-order:" + strings.Join(f, "-")
		if k < 0 || len(f) != 3 || f[1] != "before" {
			e.frameObl(name, []string{"C18"}, false, "", "well-formed pegAltBefore entry", "cannot parse "+strconv.Quote(sp))
			continue
		}
		r := pa.g.ByName[rule]
		if r == nil {
			e.frameObl(name, []string{"C18"}, false, "", "rule "+rule+" exists", "no such rule")
			continue
		}
		ch := unwrapPeg(r.Expr)
		if ch.Kind != pkChoice {
			e.frameObl(name, []string{"C18"}, false, "", "rule "+rule+" is an ordered choice", "the rule body is not a choice")
			continue
		}
		lastA, firstB := -1, -1
		nA, nB := 0, 0
		for i, alt := range ch.Kids {
			switch pa.firstRuleOf(alt) {
			case f[0]:
				nA++
				lastA = i
			case f[2]:
				nB++
				if firstB < 0 {
					firstB = i
				}
			}
		}
		ok := nA > 0 && nB > 0 && lastA < firstB
		detail := ""
		if !ok {
			detail = fmt.Sprintf("alternatives starting with %s: %d (last at %d); starting with %s: %d (first at %d)", f[0], nA, lastA, f[2], nB, firstB)
		}
		e.frameObl(name, []string{"C18"}, ok, "", "in "+rule+", the alternatives that start with "+f[0]+" are tried before those that start with "+f[2], detail)
	}
}

// firstRuleOf: the rule referenced by the first consuming element of n (looking through guards, labels, actions and
// leading literals such as "&"), or "".
func (pa *pegAnalysis) firstRuleOf(n *pegNode) string {
	n = unwrapPeg(n)
	switch n.Kind {
	case pkRef:
		return pa.g.Rules[n.Ref].Name
	case pkSeq:
		for _, k := range n.Kids {
			ku := unwrapPeg(k)
			switch ku.Kind {
			case pkAnd, pkNot, pkAndCode, pkNotCode, pkCode:
				continue
			case pkLit:
				return "lit:" + ku.Text
			}
			return pa.firstRuleOf(ku)
		}
	}
	return ""
}

// addClassExcludesObligations (C13): `var pegClassExcludes = []string{"<rule>: <chars>"}` — the text class of a string
// literal style is an inverted character class that excludes EXACTLY the listed characters (its own delimiter, the
// backslash and, for templates, the opening brace).  A character excluded without being a delimiter has no spelling
// in that style (the escapes cover only the listed ones), so some text would not be representable.
func (e *Engine) addClassExcludesObligations(pa *pegAnalysis) {
	var specs []string
	for v, lit := range e.globalsInit {
		if v.Name() != "pegClassExcludes" {
			continue
		}
		for _, el := range lit.Elts {
			if bl, ok := el.(*ast.BasicLit); ok {
				if s, err := strconv.Unquote(bl.Value); err == nil {
					specs = append(specs, s)
				}
			}
		}
	}
	sort.Strings(specs)
	for _, sp := range specs {
		k := strings.Index(sp, ": ")
		if k < 0 {
			continue
		}
		rule, want := sp[:k], []rune(sp[k+2:])
		name := "peg:" + rule + "/class-excludes-exactly"
		r := pa.g.ByName[rule]
		if r == nil {
			e.frameObl(name, []string{"C13"}, false, "", "rule "+rule+" exists", "no such rule")
			continue
		}
		var classes []*pegNode
		var walk func(n *pegNode)
		walk = func(n *pegNode) {
			if n.Kind == pkClass {
				classes = append(classes, n)
			}
			for _, c := range n.Kids {
				walk(c)
			}
		}
		walk(r.Expr)
		detail := ""
		switch {
		case len(classes) != 1:
			detail = fmt.Sprintf("expected one character class in the rule, found %d", len(classes))
		case !classes[0].Inverted:
			detail = "the class is not inverted: " + classes[0].Text
		case len(classes[0].Ranges) > 0:
			detail = "the class excludes ranges: " + classes[0].Text
		default:
			got := map[rune]bool{}
			for _, c := range classes[0].Chars {
				got[c] = true
			}
			wantSet := map[rune]bool{}
			for _, c := range want {
				wantSet[c] = true
			}
			var extra, missing []string
			for c := range got {
				if !wantSet[c] {
					extra = append(extra, strconv.QuoteRune(c))
				}
			}
			for c := range wantSet {
				if !got[c] {
					missing = append(missing, strconv.QuoteRune(c))
				}
			}
			sort.Strings(extra)
			sort.Strings(missing)
			if len(extra) > 0 {
				detail += "also excludes " + strings.Join(extra, " ") + " (no escape exists for it in this style) "
			}
			if len(missing) > 0 {
				detail += "no longer excludes " + strings.Join(missing, " ")
			}
		}
		e.frameObl(name, []string{"C13"}, detail == "", "", "the text class of "+rule+" excludes exactly "+strconv.Quote(string(want)), detail)
	}
}

// addLetterFreeObligations (C18): `var pegLetterFree = []string{"<rule>"}` — number literals cannot consume an ASCII
// letter: in an st list a value abuts the next attribute name (`力量1.5e2` is 力量=1.5 followed by e=2), so a literal
// that admits a letter (an exponent suffix, a hex digit, a unit) swallows the beginning of the next edit.
func (e *Engine) addLetterFreeObligations(pa *pegAnalysis) {
	var rules []string
	for v, lit := range e.globalsInit {
		if v.Name() != "pegLetterFree" {
			continue
		}
		for _, el := range lit.Elts {
			if bl, ok := el.(*ast.BasicLit); ok {
				if s, err := strconv.Unquote(bl.Value); err == nil {
					rules = append(rules, s)
				}
			}
		}
	}
	sort.Strings(rules)
	for _, name := range rules {
		r := pa.g.ByName[name]
		obl := "peg:" + name + "/letter-free"
		if r == nil {
			e.frameObl(obl, []string{"C18"}, false, "", "rule "+name+" exists", "no such rule")
			continue
		}
		why := pa.mayConsumeLetter(r.Expr, map[*pegRule]bool{})
		e.frameObl(obl, []string{"C18"}, why == "", "", "the literal rule "+name+" cannot consume an ASCII letter (a value ends where the next name begins)", why)
	}
}

func (pa *pegAnalysis) mayConsumeLetter(n *pegNode, seen map[*pegRule]bool) string {
	isLetter := func(r rune) bool { return (r >= 'a' && r <= 'z') || (r >= 'A' && r <= 'Z') }
	switch n.Kind {
	case pkAnd, pkNot, pkAndCode, pkNotCode, pkCode:
		return ""
	case pkAny:
		return "`.` matches any character"
	case pkLit:
		for _, c := range n.Text {
			if isLetter(c) {
				return "literal " + strconv.Quote(n.Text) + " contains a letter"
			}
		}
		return ""
	case pkClass:
		if n.Inverted {
			return "inverted character class " + n.Text
		}
		for _, c := range n.Chars {
			if isLetter(c) {
				return "character class " + n.Text + " admits the letter " + strconv.QuoteRune(c)
			}
		}
		for i := 0; i+1 < len(n.Ranges); i += 2 {
			lo, hi := n.Ranges[i], n.Ranges[i+1]
			if (lo <= 'z' && hi >= 'a') || (lo <= 'Z' && hi >= 'A') {
				return "character class " + n.Text + " admits letters"
			}
		}
		if strings.Contains(n.Text, "\\p") || strings.Contains(n.Text, "\\P") {
			return "character class " + n.Text + " uses a Unicode class"
		}
		return ""
	case pkRef:
		r := pa.g.Rules[n.Ref]
		if seen[r] {
			return ""
		}
		seen[r] = true
		return pa.mayConsumeLetter(r.Expr, seen)
	}
	for _, k := range n.Kids {
		if w := pa.mayConsumeLetter(k, seen); w != "" {
			return w
		}
	}
	return ""
}

// addKeywordBoundaryObligations (C02, C03): a keyword literal (one of the alternatives of rule `keywords`) used by a
// statement rule matches whole words only: the element after it is `!xidContinue`, mandatory white space (sp1x / sp1),
// or — for `else` — white space followed by a block.  Otherwise an identifier that merely begins with the keyword
// (`returnValue = 5`, `breakx`) is cut in two.
func (e *Engine) addKeywordBoundaryObligations(pa *pegAnalysis) {
	kw := pa.g.ByName["keywords"]
	if kw == nil {
		return
	}
	words := map[string]bool{}
	var collect func(n *pegNode)
	collect = func(n *pegNode) {
		if n.Kind == pkLit {
			words[n.Text] = true
		}
		for _, k := range n.Kids {
			collect(k)
		}
	}
	collect(kw.Expr)
	boundary := func(n *pegNode) bool {
		var ok func(n *pegNode) bool
		ok = func(n *pegNode) bool {
			n = unwrapPeg(n)
			switch n.Kind {
			case pkNot:
				k := unwrapPeg(n.Kids[0])
				return k.Kind == pkRef && pa.g.Rules[k.Ref].Name == "xidContinue"
			case pkRef:
				nm := pa.g.Rules[n.Ref].Name
				return nm == "sp1x" || nm == "sp1"
			case pkSeq:
				if len(n.Kids) == 0 {
					return false
				}
				if ok(n.Kids[0]) {
					return true
				}
				// sp block
				if f := unwrapPeg(n.Kids[0]); f.Kind == pkRef && pa.g.Rules[f.Ref].Name == "sp" && len(n.Kids) > 1 {
					if b := unwrapPeg(n.Kids[1]); b.Kind == pkRef && pa.g.Rules[b.Ref].Name == "block" {
						return true
					}
				}
				return false
			case pkChoice:
				for _, k := range n.Kids {
					if !ok(k) {
						return false
					}
				}
				return len(n.Kids) > 0
			}
			return false
		}
		return ok(n)
	}
	for _, r := range pa.g.Rules {
		if r == kw || r.Name == "keywords_test" {
			continue
		}
		n := 0
		var walk func(nd *pegNode)
		walk = func(nd *pegNode) {
			if nd.Kind == pkSeq {
				for i, k := range nd.Kids {
					ku := unwrapPeg(k)
					if ku.Kind == pkLit && words[ku.Text] {
						n++
						good := i+1 < len(nd.Kids) && boundary(nd.Kids[i+1])
						detail := ""
						if !good {
							detail = "the keyword " + strconv.Quote(ku.Text) + " in rule " + r.Name + " is not followed by !xidContinue or mandatory white space"
						}
						e.frameObl(fmt.Sprintf("peg:%s/keyword-boundary:%s#%d", r.Name, ku.Text, n), []string{"C02", "C03"}, good, "", "keyword "+strconv.Quote(ku.Text)+" in "+r.Name+" matches whole words only", detail)
					}
				}
			}
			for _, k := range nd.Kids {
				walk(k)
			}
		}
		walk(r.Expr)
	}
}
