package vc

import (
	"fmt"
	"go/ast"
	"os"
	"sort"
	"strconv"
	"strings"
)

// Flag dominance (C16) and st-command confinement (C18) over the grammar table.
//
// A configuration predicate `&{return [!]c.data.Config.F}` that succeeded establishes the fact F=true (F=false).
// The fact holds for the elements that follow it in its sequence (and inside the rules they reference) until an
// action writes F.  Obligation: every action that emits an opcode of a dice family runs only where the family's
// enabling flag is known to be true; every action that emits a statement construct (blocks, loops, function
// definitions, return) runs only where DisableStmts is known to be false.  Facts at a rule's entry are the
// intersection over all its (non-look-ahead) reference sites, computed as a greatest fixpoint.

type flagFacts map[string]bool // "F=true" / "F=false"

func (f flagFacts) clone() flagFacts {
	o := flagFacts{}
	for k := range f {
		o[k] = true
	}
	return o
}

func (f flagFacts) meet(g flagFacts) flagFacts {
	o := flagFacts{}
	for k := range f {
		if g[k] {
			o[k] = true
		}
	}
	return o
}

func (f flagFacts) key() string {
	var ks []string
	for k := range f {
		ks = append(ks, k)
	}
	sort.Strings(ks)
	return strings.Join(ks, ",")
}

func (f flagFacts) dropFlag(name string) {
	delete(f, name+"=true")
	delete(f, name+"=false")
}

type flagAnalysis struct {
	pa      *pegAnalysis
	entry   map[*pegRule]flagFacts // nil = not reached yet (top)
	writes  map[*pegRule]map[string]bool
	report  bool
	changed bool
	emit    func(n *pegNode, path string, facts flagFacts)
	onRef   func(n *pegNode, path string, facts flagFacts)
}

// opcode -> fact required where it is emitted
func familyFactOfOp(op string) string {
	switch {
	case op == "typeDiceCocBonus" || op == "typeDiceCocPenalty":
		return "EnableDiceCoC=true"
	case strings.HasPrefix(op, "typeWod") || op == "typeDiceWod":
		return "EnableDiceWoD=true"
	case strings.HasPrefix(op, "typeDCSet") || op == "typeDiceDC":
		return "EnableDiceDoubleCross=true"
	case op == "typeDiceFate":
		return "EnableDiceFate=true"
	case op == "typeBlockPush" || op == "typeReturn" || op == "typePushFunction":
		return "DisableStmts=false"
	case op == "typeBitwiseAnd" || op == "typeBitwiseOr":
		return "DisableBitwiseOp=false?" // documented switch, checked as a weaker fact below
	}
	return ""
}

func familyFactOfCall(m string) string {
	switch m {
	case "AddStoreFunction", "LoopBegin":
		return "DisableStmts=false"
	}
	return ""
}

// flag writes of a rule (transitively), from the action facts
func (fa *flagAnalysis) ruleWrites(r *pegRule, seen map[*pegRule]bool) map[string]bool {
	if w, ok := fa.writes[r]; ok {
		return w
	}
	if seen[r] {
		return nil
	}
	seen[r] = true
	w := map[string]bool{}
	var visit func(n *pegNode)
	visit = func(n *pegNode) {
		switch n.Kind {
		case pkAnd, pkNot:
			return // skip mode
		case pkAction, pkCode:
			af := fa.pa.e.actionFactsOf(n.Fn)
			for _, f := range af.FlagWrites {
				w[f] = true
			}
			for _, c := range af.Calls {
				if c == "FlagsPop" {
					w["*"] = true
				}
			}
		case pkRef:
			for f := range fa.ruleWrites(fa.pa.g.Rules[n.Ref], seen) {
				w[f] = true
			}
		}
		for _, k := range n.Kids {
			visit(k)
		}
	}
	visit(r.Expr)
	fa.writes[r] = w
	return w
}

func (fa *flagAnalysis) applyWrites(f flagFacts, w map[string]bool) {
	if w["*"] {
		for k := range f {
			delete(f, k)
		}
		return
	}
	for name := range w {
		f.dropFlag(name)
	}
}

// walk returns the facts after n succeeded.
func (fa *flagAnalysis) walk(n *pegNode, path string, in flagFacts) flagFacts {
	pa := fa.pa
	switch n.Kind {
	case pkSeq:
		cur := in
		for i, k := range n.Kids {
			cur = fa.walk(k, fmt.Sprintf("%s.%d", path, i), cur)
		}
		return cur
	case pkChoice:
		var out flagFacts
		for i, k := range n.Kids {
			o := fa.walk(k, fmt.Sprintf("%s.%d", path, i), in.clone())
			if out == nil {
				out = o
			} else {
				out = out.meet(o)
			}
		}
		if out == nil {
			return in
		}
		return out
	case pkStar, pkPlus, pkOpt:
		// the body may run any number of times: facts that survive one iteration started from the meet
		body := fa.walk(n.Kids[0], path+".0", in.clone())
		m := in.meet(body)
		if m.key() != in.key() {
			body = fa.walk(n.Kids[0], path+".0", m.clone())
			m = m.meet(body)
		}
		if n.Kind == pkPlus {
			return m
		}
		return m
	case pkAnd, pkNot:
		return in
	case pkAndCode, pkNotCode:
		af := pa.e.actionFactsOf(n.Fn)
		out := in.clone()
		if af.ReadsFlag != "" {
			val := !af.FlagNeg
			if n.Kind == pkNotCode {
				val = !val
			}
			out[fmt.Sprintf("%s=%v", af.ReadsFlag, val)] = true
		}
		return out
	case pkLabeled:
		return fa.walk(n.Kids[0], path, in)
	case pkAction:
		out := fa.walk(n.Kids[0], path, in)
		return fa.code(n, path, out)
	case pkCode:
		return fa.code(n, path, in)
	case pkRef:
		r := pa.g.Rules[n.Ref]
		if fa.report && fa.onRef != nil {
			fa.onRef(n, path, in)
		}
		if cur, ok := fa.entry[r]; !ok {
			fa.entry[r] = in.clone()
			fa.changed = true
		} else {
			m := cur.meet(in)
			if m.key() != cur.key() {
				fa.entry[r] = m
				fa.changed = true
			}
		}
		out := in.clone()
		fa.applyWrites(out, fa.ruleWrites(r, map[*pegRule]bool{}))
		return out
	}
	return in
}

func (fa *flagAnalysis) code(n *pegNode, path string, in flagFacts) flagFacts {
	af := fa.pa.e.actionFactsOf(n.Fn)
	if fa.report && fa.emit != nil {
		fa.emit(n, path, in)
	}
	out := in.clone()
	w := map[string]bool{}
	for _, f := range af.FlagWrites {
		if f != "*" {
			w[f] = true
		}
	}
	for _, c := range af.Calls {
		if c == "FlagsPop" {
			w["*"] = true
		}
	}
	fa.applyWrites(out, w)
	if os.Getenv("DSVC_PEG_DEBUG") != "" && n.Rule.Name == "est" {
		fmt.Fprintf(os.Stderr, "FLAGCODE %s %s sets=%v writes=%v calls=%v in=%s\n", path, n.Fn, af.FlagSets, af.FlagWrites, af.Calls, in.key())
	}
	if !w["*"] {
		for f, v := range af.FlagSets {
			out[fmt.Sprintf("%s=%v", f, v)] = true
		}
	}
	return out
}

func (e *Engine) addPEGFlagObligations(pa *pegAnalysis) {
	fa := &flagAnalysis{pa: pa, entry: map[*pegRule]flagFacts{}, writes: map[*pegRule]map[string]bool{}}
	start := pa.g.ByName["dicescript"]
	if start == nil {
		return
	}
	fa.entry[start] = flagFacts{}
	// CustomDiceStream.ReadExpr parses from exprRoot with the configuration of the running parser: no facts
	if r := pa.g.ByName["exprRoot"]; r != nil {
		fa.entry[r] = flagFacts{}
	}
	for round := 0; round < 50; round++ {
		fa.changed = false
		for _, r := range pa.g.Rules {
			if in, ok := fa.entry[r]; ok {
				fa.walk(r.Expr, r.Name, in.clone())
			}
		}
		if !fa.changed {
			break
		}
	}
	// report
	fa.report = true
	type need struct{ path, what, fact string }
	seen := map[string]bool{}
	stOps := map[string]bool{"typeStSetName": true, "typeStModify": true, "typeStX0": true, "typeStX1": true}
	var stSites []string
	fa.emit = func(n *pegNode, path string, facts flagFacts) {
		af := pa.e.actionFactsOf(n.Fn)
		var needs []need
		for _, op := range af.Ops {
			if f := familyFactOfOp(op); f != "" && !strings.HasSuffix(f, "?") {
				needs = append(needs, need{path, op, f})
			}
			if stOps[op] {
				stSites = append(stSites, n.Rule.Name)
			}
		}
		for _, c := range af.Calls {
			if f := familyFactOfCall(c); f != "" {
				needs = append(needs, need{path, c, f})
			}
			if c == "AddStName" || c == "AddStModify" {
				stSites = append(stSites, n.Rule.Name)
			}
		}
		for _, nd := range needs {
			name := fmt.Sprintf("peg:%s/flag:%s@%s", path, nd.fact, strings.TrimPrefix(nd.what, "type"))
			if seen[name] {
				continue
			}
			seen[name] = true
			ok := facts[nd.fact]
			detail := ""
			if !ok {
				detail = fmt.Sprintf("the action at %s emits %s but the configuration fact %s is not established on every path to it (facts known here: {%s})", path, nd.what, nd.fact, facts.key())
			}
			e.frameObl(name, []string{"C16"}, ok, "", "emission of "+nd.what+" is dominated by the configuration predicate "+nd.fact, detail)
		}
	}
	// scoped switches (C18): `var pegScopedFlags = []string{"<rule>><target>: F=v ..."}` in the contracts file: inside <rule>,
	// every (non-look-ahead) reference to <target> is entered with the listed facts, unless the alternative it belongs to
	// begins with the look-ahead of the literal "(" (a parenthesised value delimits itself).
	scoped := e.pegScopedFlags()
	scopedSeen := map[string]int{}
	fa.onRef = func(n *pegNode, path string, facts flagFacts) {
		for _, sc := range scoped {
			if n.Rule.Name != sc.rule || pa.g.Rules[n.Ref].Name != sc.target {
				continue
			}
			if pa.underParenGuard(n) {
				continue
			}
			scopedSeen[sc.rule+">"+sc.target]++
			for _, f := range sc.facts {
				name := fmt.Sprintf("peg:%s/scoped-flag:%s@%s", path, f, sc.target)
				if seen[name] {
					continue
				}
				seen[name] = true
				ok := facts[f]
				detail := ""
				if !ok {
					detail = fmt.Sprintf("rule %s enters %s at %s without the configuration fact %s (facts known here: {%s})", sc.rule, sc.target, path, f, facts.key())
				}
				e.frameObl(name, []string{"C18", "C16"}, ok, "", "inside "+sc.rule+", "+sc.target+" is parsed with "+f, detail)
			}
		}
	}
	for _, r := range pa.g.Rules {
		if in, ok := fa.entry[r]; ok {
			fa.walk(r.Expr, r.Name, in.clone())
		}
	}
	for _, sc := range scoped {
		if scopedSeen[sc.rule+">"+sc.target] == 0 {
			e.frameObl("peg:"+sc.rule+"/scoped-flag:found@"+sc.target, []string{"C18", "C16"}, false, "", "rule "+sc.rule+" references "+sc.target+" outside a parenthesis guard", "no such reference found (grammar changed?)")
		}
	}
	// C18: st.* instructions are emitted only by rules that are reachable solely through the "^st" alternative
	e.addStConfinement(pa, uniq(stSites))
}

// addStConfinement: every rule that emits an st.* instruction is reachable from the start rule only through the
// sequence `"^st" st_expr`.
func (e *Engine) addStConfinement(pa *pegAnalysis, stRules []string) {
	start := pa.g.ByName["dicescript"]
	// reachability that does not pass through a sequence beginning with the literal "^st"
	reach := map[*pegRule]bool{}
	var visit func(n *pegNode)
	var visitRule func(r *pegRule)
	visit = func(n *pegNode) {
		switch n.Kind {
		case pkSeq:
			if len(n.Kids) > 0 && n.Kids[0].Kind == pkLit && n.Kids[0].Text == "^st" {
				return
			}
		case pkAnd, pkNot:
			return
		case pkRef:
			visitRule(pa.g.Rules[n.Ref])
			return
		}
		for _, k := range n.Kids {
			visit(k)
		}
	}
	visitRule = func(r *pegRule) {
		if reach[r] {
			return
		}
		reach[r] = true
		visit(r.Expr)
	}
	if start != nil {
		visitRule(start)
	}
	if r := pa.g.ByName["exprRoot"]; r != nil {
		visitRule(r)
	}
	sort.Strings(stRules)
	for _, name := range stRules {
		r := pa.g.ByName[name]
		ok := r != nil && !reach[r]
		detail := ""
		if !ok {
			detail = "rule " + name + " emits an st.* instruction and is reachable without the \"^st\" prefix"
		}
		e.frameObl("peg:"+name+"/st-only-under-^st", []string{"C18"}, ok, "", "rule "+name+" (emits st.* instructions) is reachable only through the \"^st\" alternative of stmtSt", detail)
	}
	if len(stRules) == 0 {
		e.frameObl("peg:st-rules-found", []string{"C18"}, false, "", "the grammar has rules that emit st.* instructions", "no action emitting typeStSetName/typeStModify/typeStX0/typeStX1 (directly or through AddStName/AddStModify) was found")
	}
}

type scopedFlag struct {
	rule, target string
	facts        []string
}

func (e *Engine) pegScopedFlags() []scopedFlag {
	var out []scopedFlag
	for v, lit := range e.globalsInit {
		if v.Name() != "pegScopedFlags" {
			continue
		}
		for _, el := range lit.Elts {
			bl, ok := el.(*ast.BasicLit)
			if !ok {
				continue
			}
			s, err := strconv.Unquote(bl.Value)
			if err != nil {
				continue
			}
			k := strings.Index(s, ":")
			if k < 0 {
				continue
			}
			rt := strings.SplitN(strings.TrimSpace(s[:k]), ">", 2)
			if len(rt) != 2 {
				continue
			}
			out = append(out, scopedFlag{rule: rt[0], target: rt[1], facts: strings.Fields(s[k+1:])})
		}
	}
	sort.Slice(out, func(i, j int) bool { return out[i].rule+out[i].target < out[j].rule+out[j].target })
	return out
}

// underParenGuard: the nearest enclosing sequence of n (within its rule) begins with the look-ahead &"(".
func (pa *pegAnalysis) underParenGuard(n *pegNode) bool {
	var find func(cur *pegNode, guarded bool) (bool, bool)
	find = func(cur *pegNode, guarded bool) (bool, bool) {
		if cur == n {
			return true, guarded
		}
		g := guarded
		if cur.Kind == pkSeq && len(cur.Kids) > 0 {
			if k := cur.Kids[0]; k.Kind == pkAnd && len(k.Kids) == 1 && k.Kids[0].Kind == pkLit && k.Kids[0].Text == "(" {
				g = true
			}
		}
		if cur.Kind == pkAnd || cur.Kind == pkNot {
			return false, false
		}
		for _, k := range cur.Kids {
			if f, gg := find(k, g); f {
				return true, gg
			}
		}
		return false, false
	}
	_, g := find(n.Rule.Expr, false)
	return g
}
