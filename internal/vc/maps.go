package vc

import (
	"go/ast"
	"go/types"
)

// Modelled Go maps (opt-in: `mapmodel <map type>` in the contracts file; every other map type stays opaque).
//
// A map value is an address (0 = nil map).  Per modelled map type T three heaps describe the map objects:
//
//	map.T#dom : Array Int (Array K Bool)   key set
//	map.T#val : Array Int (Array K V)      values (meaningful where the key is present)
//	map.T#len : Array Int Int              number of keys
//
// m[k] reads, `v, ok := m[k]`, m[k] = v, delete(m, k), len(m), make(T) and `for k, v := range m` are translated
// over these heaps.  len is kept consistent with dom by the updates; the only fact assumed about it beyond
// `len >= 0` is `len == 0 <=> no key present` (true of Go maps; cardinality itself is not axiomatised).
//
// Iteration visits a key that is present and not yet seen, in arbitrary order, until every present key has been
// seen; `rangeSeen(k)` names the seen-set of the innermost modelled range loop in invariants and ghost code.
// Assumption (listed): the body does not insert into the map it ranges over.

func (e *Engine) mapModelled(t types.Type) *types.Map {
	if t == nil {
		return nil
	}
	m, ok := t.Underlying().(*types.Map)
	if !ok {
		return nil
	}
	ts := e.typeStr(t.Underlying())
	for _, w := range e.P.CF.MapModels {
		if w == ts {
			return m
		}
	}
	return nil
}

type mapHeaps struct {
	base     string
	ks, vs   Sort
	domS     Sort
	valS     Sort
	elem     types.Type
	key      types.Type
	domInner Sort
	valInner Sort
}

func (e *Engine) mapHeapsOf(m *types.Map) *mapHeaps {
	_, ks := e.classify(m.Key())
	kv, vs := e.classify(m.Elem())
	if ks == "" || vs == "" || kv != kScalar {
		panic(unsupported{"modelled map with non-scalar key or value: " + e.typeStr(m)})
	}
	h := &mapHeaps{base: "map." + e.typeStr(m), ks: ks, vs: vs, elem: m.Elem(), key: m.Key()}
	h.domInner = ArrSortK(ks, SBool)
	h.valInner = ArrSortK(ks, vs)
	h.domS = ArrSort(h.domInner)
	h.valS = ArrSort(h.valInner)
	return h
}

func (e *Engine) mapDomOf(st *State, h *mapHeaps, m *Term) *Term {
	return e.ts.Select(e.heapGet(st, h.base+"#dom", h.domS), m)
}

func (e *Engine) mapValOf(st *State, h *mapHeaps, m *Term) *Term {
	return e.ts.Select(e.heapGet(st, h.base+"#val", h.valS), m)
}

// mapHas: key k is present in map m (a nil map has no keys).
func (e *Engine) mapHas(st *State, h *mapHeaps, m, k *Term) *Term {
	ts := e.ts
	return ts.And(ts.Ne(m, ts.Int(0)), ts.Select(e.mapDomOf(st, h, m), k))
}

func (e *Engine) mapGet(st *State, h *mapHeaps, m, k *Term) *Term {
	return e.ts.Select(e.mapValOf(st, h, m), k)
}

func (e *Engine) mapLen(st *State, h *mapHeaps, m *Term) *Term {
	ts := e.ts
	raw := ts.Select(e.heapGet(st, h.base+"#len", ArrSort(SInt)), m)
	st.assume(ts.Ge(raw, ts.Int(0)))
	// len == 0 <=> empty
	bv := ts.BoundVar("mk", h.ks)
	empty := ts.Forall([]*Term{bv}, ts.Not(ts.Select(e.mapDomOf(st, h, m), bv)))
	st.assume(ts.Implies(ts.Ne(m, ts.Int(0)), ts.Eq(ts.Eq(raw, ts.Int(0)), empty)))
	return ts.Ite(ts.Eq(m, ts.Int(0)), ts.Int(0), raw)
}

func (e *Engine) mapSet(st *State, h *mapHeaps, m, k, v *Term) {
	ts := e.ts
	domH := e.heapGet(st, h.base+"#dom", h.domS)
	valH := e.heapGet(st, h.base+"#val", h.valS)
	lenH := e.heapGet(st, h.base+"#len", ArrSort(SInt))
	had := ts.Select(ts.Select(domH, m), k)
	st.heap[h.base+"#dom"] = ts.Store(domH, m, ts.Store(ts.Select(domH, m), k, ts.True()))
	st.heap[h.base+"#val"] = ts.Store(valH, m, ts.Store(ts.Select(valH, m), k, v))
	st.heap[h.base+"#len"] = ts.Store(lenH, m, ts.Add(ts.Select(lenH, m), ts.Ite(had, ts.Int(0), ts.Int(1))))
}

func (e *Engine) mapDel(st *State, h *mapHeaps, m, k *Term) {
	ts := e.ts
	domH := e.heapGet(st, h.base+"#dom", h.domS)
	lenH := e.heapGet(st, h.base+"#len", ArrSort(SInt))
	had := ts.Select(ts.Select(domH, m), k)
	// delete on a nil map is a no-op: address 0 is never read through mapHas, so the update is harmless there
	st.heap[h.base+"#dom"] = ts.Store(domH, m, ts.Store(ts.Select(domH, m), k, ts.False()))
	st.heap[h.base+"#len"] = ts.Store(lenH, m, ts.Sub(ts.Select(lenH, m), ts.Ite(had, ts.Int(1), ts.Int(0))))
}

func (e *Engine) constArr(s Sort, v *Term) *Term {
	return e.ts.App("(as const "+string(s)+")", s, v)
}

// mapMake allocates an empty map.
func (e *Engine) mapMake(st *State, h *mapHeaps) *Term {
	ts := e.ts
	addr := e.allocCells(st, ts.Int(1))
	domH := e.heapGet(st, h.base+"#dom", h.domS)
	lenH := e.heapGet(st, h.base+"#len", ArrSort(SInt))
	st.heap[h.base+"#dom"] = ts.Store(domH, addr, e.constArr(h.domInner, ts.False()))
	st.heap[h.base+"#len"] = ts.Store(lenH, addr, ts.Int(0))
	return addr
}

// rangeModelled executes `for k, v := range m` over a modelled map.
func (fx *fctx) rangeModelled(st *State, s *ast.RangeStmt, mt *types.Map, keyVar, valVar *types.Var) *State {
	e := fx.e
	ts := e.ts
	h := e.mapHeapsOf(mt)
	mv := fx.eval(st, s.X)
	m := mv.Tm
	seenVar := types.NewVar(s.Pos(), nil, "$rangeseen", types.Typ[types.Int])
	curVar := types.NewVar(s.Pos(), nil, "$rangecur", types.Typ[types.Int])
	seenSort := ArrSortK(h.ks, SBool)
	st.vars[seenVar] = &Value{T: seenVar.Type(), Tm: e.constArr(seenSort, ts.False())}
	if keyVar != nil {
		fx.bindVar(st, keyVar, e.zeroValue(keyVar.Type()))
	}
	if valVar != nil {
		fx.bindVar(st, valVar, e.zeroValue(valVar.Type()))
	}
	e.Assumptions["range over a modelled map: the body does not insert keys into the map being ranged over (Go may or may not visit them)"] = true
	fx.rangeSeen = append(fx.rangeSeen, seenVar)
	defer func() {
		fx.rangeSeen = fx.rangeSeen[:len(fx.rangeSeen)-1]
		fx.lastRangeSeen = seenVar
	}()
	more := func(hd *State) *Term {
		k0 := ts.Fresh("rangekey", h.ks)
		hd.vars[curVar] = &Value{T: curVar.Type(), Tm: k0}
		seen := hd.vars[seenVar].Tm
		c := ts.Fresh("rangemore", SBool)
		hd.assume(ts.Implies(c, ts.And(e.mapHas(hd, h, m, k0), ts.Not(ts.Select(seen, k0)))))
		bv := ts.BoundVar("rk", h.ks)
		hd.assume(ts.Implies(ts.Not(c), ts.Forall([]*Term{bv}, ts.Implies(e.mapHas(hd, h, m, bv), ts.Select(seen, bv)))))
		return c
	}
	body := func(b *State) *State {
		k0 := b.vars[curVar].Tm
		if keyVar != nil {
			fx.bindVar(b, keyVar, &Value{T: keyVar.Type(), Tm: k0})
		}
		if valVar != nil {
			v := &Value{T: valVar.Type(), Tm: e.mapGet(b, h, m, k0)}
			e.assumeType(b, v)
			fx.onRead(b, v, s)
			fx.bindVar(b, valVar, v)
		}
		return fx.execBlock(b, s.Body.List)
	}
	post := func(b *State) *State {
		b.vars[seenVar] = &Value{T: seenVar.Type(), Tm: ts.Store(b.vars[seenVar].Tm, b.vars[curVar].Tm, ts.True())}
		return b
	}
	return fx.execLoopH(st, s, more, body, post, []ast.Node{s.Body}, nil, func(hd *State) {
		hd.vars[seenVar] = &Value{T: seenVar.Type(), Tm: ts.Fresh("rangeseen", seenSort)}
	})
}

// modelledMapTypes: the map types named by `mapmodel`, found among the types the package uses.
func (e *Engine) modelledMapTypes() []*types.Map {
	if e.mapTypesCache != nil {
		return e.mapTypesCache
	}
	out := []*types.Map{}
	seen := map[string]bool{}
	for _, tv := range e.P.Info.Types {
		if tv.Type == nil {
			continue
		}
		if m := e.mapModelled(tv.Type); m != nil {
			k := e.typeStr(m)
			if !seen[k] {
				seen[k] = true
				out = append(out, m)
			}
		}
	}
	e.mapTypesCache = out
	return out
}
