package vc

import (
	"fmt"
	"go/ast"
	"go/token"
	"go/types"
	"math/big"
	"os"
	"sort"
	"strings"
)

func pow2(n uint) *big.Int { return new(big.Int).Lsh(big.NewInt(1), n) }

// evalCallInner evaluates a call expression and returns its results.
func (fx *fctx) evalCallInner(st *State, ce *ast.CallExpr) []*Value {
	e := fx.e
	info := e.P.Info
	// conversion
	if tv, ok := info.Types[ce.Fun]; ok && tv.IsType() {
		v := fx.eval(st, ce.Args[0])
		return []*Value{fx.convert(st, v, tv.Type, ce)}
	}
	fun := ce.Fun
	for {
		if p, ok := fun.(*ast.ParenExpr); ok {
			fun = p.X
			continue
		}
		break
	}
	// generic instantiation f[T](...)
	if ix, ok := fun.(*ast.IndexExpr); ok {
		if _, isSig := info.TypeOf(ix.X).Underlying().(*types.Signature); isSig {
			fun = ix.X
		}
	}
	switch f := fun.(type) {
	case *ast.Ident:
		switch o := info.Uses[f].(type) {
		case *types.Builtin:
			return fx.evalBuiltin(st, o.Name(), ce)
		case *types.Func:
			return fx.callStatic(st, o, nil, nil, ce)
		case *types.Var:
			if v, ok := st.vars[o]; ok && v.Cl != nil {
				csig := info.TypeOf(v.Cl.Lit).(*types.Signature)
				args := fx.evalArgs(st, ce, v.Cl.Lit.Type, csig)
				var cc *ClosureContract
				if fx.con != nil && !fx.spec {
					cc = fx.con.Closures[f.Name]
				}
				if cc == nil {
					return fx.inlineBody(st, v.Cl.Lit.Type, v.Cl.Lit.Body, csig, nil, nil, args, ce)
				}
				// closure under contract: requires asserted before, ensures asserted after the inlined body
				pos := v.Cl.Lit.Body.Lbrace + 1
				b := fx.visibleBindings(st, pos)
				pv := fx.declVars(v.Cl.Lit.Type.Params)
				for i, p := range pv {
					if p != nil && i < len(args) {
						b[p.Name()] = args[i]
					}
				}
				fx.callOrd["closure:"+f.Name]++
				tag := fmt.Sprintf("%s.%d", f.Name, fx.callOrd["closure:"+f.Name])
				for _, cl := range cc.Requires {
					g := fx.evalClause(st, nil, cl, b)
					fx.assert(st, "closure-requires", tag+"/pre"+fmt.Sprint(cl.Ord), g, ce, propsOr(cl.Props, fx.props), "precondition of closure "+f.Name+": "+cl.Text)
					st.assume(g)
				}
				pre := st.clone()
				res := fx.inlineBody(st, v.Cl.Lit.Type, v.Cl.Lit.Body, csig, nil, nil, args, ce)
				if !st.dead {
					b2 := fx.visibleBindings(st, pos)
					for i, p := range pv {
						if p != nil && i < len(args) {
							b2[p.Name()] = args[i]
						}
					}
					for i, r := range res {
						b2[fmt.Sprintf("result%d", i)] = r
						if len(res) == 1 {
							b2["result"] = r
						}
					}
					for _, cl := range cc.Ensures {
						g := fx.evalClause(st, pre, cl, b2)
						fx.assert(st, "closure-post", tag+"/post"+fmt.Sprint(cl.Ord), g, ce, propsOr(cl.Props, fx.props), "postcondition of closure "+f.Name+": "+cl.Text)
					}
				}
				return res
			}
			fv := fx.eval(st, f)
			return fx.callDynamic(st, fv, "func value "+f.Name, ce)
		}
	case *ast.SelectorExpr:
		if sel := info.Selections[f]; sel != nil {
			switch sel.Kind() {
			case types.MethodVal:
				fn := sel.Obj().(*types.Func)
				if _, isI := sel.Recv().Underlying().(*types.Interface); isI {
					recv := fx.eval(st, f.X)
					return fx.callInterface(st, recv, fn, ce)
				}
				return fx.callStatic(st, fn, f.X, sel, ce)
			case types.FieldVal:
				fv := fx.eval(st, f)
				return fx.callDynamic(st, fv, "function-typed field "+f.Sel.Name, ce)
			}
		} else if fn, ok := info.Uses[f.Sel].(*types.Func); ok {
			return fx.callStatic(st, fn, nil, nil, ce)
		} else if v, ok := info.Uses[f.Sel].(*types.Var); ok {
			fv := fx.loadGlobal(st, v)
			return fx.callDynamic(st, fv, "global function value "+v.Name(), ce)
		}
	case *ast.FuncLit:
		sig := info.TypeOf(f).(*types.Signature)
		args := fx.evalArgs(st, ce, f.Type, sig)
		return fx.inlineBody(st, f.Type, f.Body, sig, nil, nil, args, ce)
	default:
		fv := fx.eval(st, fun)
		return fx.callDynamic(st, fv, "computed callee", ce)
	}
	e.unsup(ce, "unsupported call %s", e.exprStr(ce.Fun))
	return nil
}

// evalArgs evaluates arguments, packing variadic ones into a fresh slice.
func (fx *fctx) evalArgs(st *State, ce *ast.CallExpr, ft *ast.FuncType, sig *types.Signature) []*Value {
	e := fx.e
	ts := e.ts
	np := sig.Params().Len()
	// f(g()) with multi-value g
	if len(ce.Args) == 1 && np > 1 {
		if inner, ok := ce.Args[0].(*ast.CallExpr); ok {
			if tup, ok := e.P.Info.TypeOf(inner).(*types.Tuple); ok && tup.Len() == np {
				return fx.evalCall(st, inner)
			}
		}
	}
	var out []*Value
	for i := 0; i < np; i++ {
		p := sig.Params().At(i)
		if sig.Variadic() && i == np-1 {
			if ce.Ellipsis != token.NoPos {
				out = append(out, fx.eval(st, ce.Args[i]))
				break
			}
			elemT := p.Type().(*types.Slice).Elem()
			rest := ce.Args[i:]
			if len(rest) == 0 {
				out = append(out, e.zeroValue(p.Type()))
				break
			}
			addr := e.allocCells(st, ts.Int(int64(len(rest))))
			for j, a := range rest {
				v := fx.convertForAssign(st, fx.eval(st, a), elemT)
				if e.nonNilElem(elemT) && v.Tm != nil && !fx.spec {
					fx.check(st, "elem-nonnil", "variadic", ts.Ne(v.Tm, ts.Int(0)), a, "variadic argument packed into a slice is not nil")
				}
				e.storeCell(st, "", ts.Add(addr, ts.Int(int64(j))), elemT, v)
			}
			out = append(out, &Value{T: p.Type(), Sl: &SliceVal{Ptr: addr, Len: ts.Int(int64(len(rest))), Cap: ts.Int(int64(len(rest)))}})
			break
		}
		if i >= len(ce.Args) {
			e.unsup(ce, "missing argument")
		}
		out = append(out, fx.convertForAssign(st, fx.eval(st, ce.Args[i]), p.Type()))
	}
	return out
}

func (fx *fctx) evalBuiltin(st *State, name string, ce *ast.CallExpr) []*Value {
	e := fx.e
	ts := e.ts
	t := e.P.Info.TypeOf(ce)
	switch name {
	case "len", "cap":
		v := fx.eval(st, ce.Args[0])
		switch {
		case v.Sl != nil:
			if name == "len" {
				return []*Value{{T: t, Tm: v.Sl.Len}}
			}
			return []*Value{{T: t, Tm: v.Sl.Cap}}
		case v.Tm != nil && v.Tm.Sort == SStr:
			return []*Value{{T: t, Tm: ts.App("str_len", SInt, v.Tm)}}
		case v.Tm != nil && v.Tm.Sort.IsArr():
			at := v.T.Underlying().(*types.Array)
			return []*Value{{T: t, Tm: ts.Int(at.Len())}}
		case v.Tm != nil && v.Tm.Sort == SInt && e.mapModelled(v.T) != nil:
			return []*Value{{T: t, Tm: e.mapLen(st, e.mapHeapsOf(e.mapModelled(v.T)), v.Tm)}}
		case v.Tm != nil && v.Tm.Sort == SInt:
			// map length: unknown non-negative; nil map has length 0
			r := &Value{T: t, Tm: ts.App("map_len", SInt, v.Tm, fx.mapEpoch(st))}
			st.assume(ts.Ge(r.Tm, ts.Int(0)))
			st.assume(ts.Implies(ts.Eq(v.Tm, ts.Int(0)), ts.Eq(r.Tm, ts.Int(0))))
			return []*Value{r}
		}
		e.unsup(ce, "len of unsupported value")
	case "append":
		sv := fx.eval(st, ce.Args[0])
		sT := e.P.Info.TypeOf(ce.Args[0])
		if sv.T == nil {
			sv = e.zeroValue(t)
			sT = t
		}
		elemT := sT.Underlying().(*types.Slice).Elem()
		var n *Term
		var vals []*Value
		var src *Value
		if ce.Ellipsis != token.NoPos {
			src = fx.eval(st, ce.Args[1])
			if src.Sl != nil {
				fx.assumeElemsNonNil(st, src, elemT)
				n = src.Sl.Len
			} else { // append([]byte, string...)
				n = ts.App("str_len", SInt, src.Tm)
			}
		} else {
			for _, a := range ce.Args[1:] {
				av := fx.convertForAssign(st, fx.eval(st, a), elemT)
				if e.nonNilElem(elemT) && av.Tm != nil && !fx.spec {
					fx.check(st, "elem-nonnil", "append", ts.Ne(av.Tm, ts.Int(0)), a, "value appended to the slice is not nil")
				}
				vals = append(vals, av)
			}
			n = ts.Int(int64(len(vals)))
		}
		newLen := ts.Add(sv.Sl.Len, n)
		// two outcomes: in place (len+n <= cap) or reallocation
		fits := ts.Le(newLen, sv.Sl.Cap)
		newCap := ts.Fresh("newcap", SInt)
		st.assume(ts.Ge(newCap, newLen))
		st.assume(ts.Ge(newCap, ts.Int(1)))
		st.assume(ts.Le(newCap, ts.IntBig(maxSliceLen)))
		fresh := st.alloc
		st.alloc = ts.Add(st.alloc, newCap)
		ptr := ts.Ite(fits, sv.Sl.Ptr, fresh)
		capT := ts.Ite(fits, sv.Sl.Cap, newCap)
		if ts.Gt(sv.Sl.Cap, ts.Int(0)).IsFalse() {
			ptr, capT = fresh, newCap
		}
		res := &Value{T: t, Sl: &SliceVal{Ptr: ptr, Len: newLen, Cap: capT}}
		// copy of old elements on reallocation: model by a per-element-kind copy fact
		fx.copyCells(st, elemT, ptr, sv.Sl.Ptr, sv.Sl.Len, ts.Not(fits))
		if src != nil {
			if src.Sl != nil {
				fx.copyCells(st, elemT, ts.Add(ptr, sv.Sl.Len), src.Sl.Ptr, src.Sl.Len, ts.True())
			} else {
				e.havocKey(st, e.elemKey(elemT), ArrSort(SInt))
			}
		} else {
			for i, v := range vals {
				e.storeCell(st, "", ts.Add(ptr, ts.Add(sv.Sl.Len, ts.Int(int64(i)))), elemT, v)
			}
		}
		return []*Value{res}
	case "make":
		switch u := t.Underlying().(type) {
		case *types.Slice:
			n := fx.evalInt(st, ce.Args[1])
			c := n
			if len(ce.Args) > 2 {
				c = fx.evalInt(st, ce.Args[2])
			}
			fx.check(st, "makeslice", abbrev(e.exprStr(ce)), ts.And(ts.Le(ts.Int(0), n), ts.Le(n, c), ts.Le(c, ts.IntBig(maxSliceLen))), ce, "make: length in range")
			addr := e.allocCells(st, c)
			fx.zeroCells(st, u.Elem(), addr, c)
			if fx.madeSlices == nil {
				fx.madeSlices = map[int]bool{}
			}
			fx.madeSlices[addr.id] = true
			return []*Value{{T: t, Sl: &SliceVal{Ptr: addr, Len: n, Cap: c}}}
		case *types.Map, *types.Chan:
			for _, a := range ce.Args[1:] {
				fx.eval(st, a)
			}
			if mt := e.mapModelled(t); mt != nil {
				return []*Value{{T: t, Tm: e.mapMake(st, e.mapHeapsOf(mt))}}
			}
			addr := e.allocCells(st, ts.Int(1))
			return []*Value{{T: t, Tm: addr}}
		}
	case "new":
		pt := t.Underlying().(*types.Pointer)
		addr := e.allocCells(st, ts.Int(1))
		e.storeCell(st, "", addr, pt.Elem(), e.zeroValue(pt.Elem()))
		return []*Value{{T: t, Tm: addr}}
	case "copy":
		dst := fx.eval(st, ce.Args[0])
		src := fx.eval(st, ce.Args[1])
		elemT := dst.T.Underlying().(*types.Slice).Elem()
		var n *Term
		if src.Sl != nil {
			n = ts.App("min2", SInt, dst.Sl.Len, src.Sl.Len)
			fx.assumeElemsNonNil(st, src, elemT)
			fx.copyCells(st, elemT, dst.Sl.Ptr, src.Sl.Ptr, n, ts.True())
		} else {
			n = ts.App("min2", SInt, dst.Sl.Len, ts.App("str_len", SInt, src.Tm))
			e.havocKey(st, e.elemKey(elemT), ArrSort(SInt))
		}
		return []*Value{{T: t, Tm: n}}
	case "panic":
		for _, a := range ce.Args {
			fx.eval(st, a)
		}
		fx.assert(st, "panic", "", ts.False(), ce, nil, "explicit panic is unreachable")
		st.dead = true
		st.assume(ts.False())
		return nil
	case "delete":
		dm := fx.eval(st, ce.Args[0])
		dk := fx.eval(st, ce.Args[1])
		if mt := e.mapModelled(dm.T); mt != nil {
			e.mapDel(st, e.mapHeapsOf(mt), dm.Tm, dk.Tm)
			return nil
		}
		fx.bumpMapEpoch(st)
		return nil
	case "min", "max":
		a := fx.eval(st, ce.Args[0])
		for _, x := range ce.Args[1:] {
			b := fx.eval(st, x)
			if name == "min" {
				a = &Value{T: t, Tm: ts.Ite(ts.Le(a.Tm, b.Tm), a.Tm, b.Tm)}
			} else {
				a = &Value{T: t, Tm: ts.Ite(ts.Ge(a.Tm, b.Tm), a.Tm, b.Tm)}
			}
		}
		return []*Value{a}
	case "print", "println":
		for _, a := range ce.Args {
			fx.eval(st, a)
		}
		return nil
	case "recover":
		return []*Value{{T: t, Tm: ts.App("any_nil", SAny)}}
	}
	e.unsup(ce, "builtin %s", name)
	return nil
}

func (fx *fctx) mapEpoch(st *State) *Term {
	return fx.e.ts.Select(fx.e.heapGet(st, "map.epoch", ArrSort(SInt)), fx.e.ts.Int(0))
}
func (fx *fctx) bumpMapEpoch(st *State) {
	fx.e.havocKey(st, "map.epoch", ArrSort(SInt))
}

// heapKeysOf lists the heap keys holding a value of type t stored under key (""=by element type).
func (e *Engine) heapKeysOf(key string, t types.Type) []struct {
	Key  string
	Sort Sort
} {
	type ks = struct {
		Key  string
		Sort Sort
	}
	k, s := e.classify(t)
	switch k {
	case kScalar, kArray:
		if key == "" {
			key = e.elemKey(t)
		}
		return []ks{{key, ArrSort(s)}}
	case kSlice:
		if key == "" {
			key = e.elemKey(t)
		}
		return []ks{{key + "#p", ArrSort(SInt)}, {key + "#l", ArrSort(SInt)}, {key + "#c", ArrSort(SInt)}}
	case kStruct:
		var out []ks
		sty := structOf(t)
		sn := e.structName(t)
		for i := 0; i < sty.NumFields(); i++ {
			out = append(out, e.heapKeysOf(sn+"."+sty.Field(i).Name(), sty.Field(i).Type())...)
		}
		return out
	}
	return nil
}

// copyCells models dst[0:n) = src[0:n) under cond, for every heap holding elements of type elemT.
func (fx *fctx) copyCells(st *State, elemT types.Type, dst, src, n, cond *Term) {
	e := fx.e
	ts := e.ts
	if cond.IsFalse() {
		return
	}
	if n.Int != nil && n.Int.Sign() == 0 {
		return
	}
	for _, k := range e.heapKeysOf("", elemT) {
		old := e.heapGet(st, k.Key, k.Sort)
		nw := ts.Fresh("H."+k.Key, k.Sort)
		i := ts.BoundVar("ci", SInt)
		inDst := ts.And(ts.Le(dst, i), ts.Lt(i, ts.Add(dst, n)))
		body := ts.Eq(ts.Select(nw, i), ts.Ite(ts.And(cond, inDst), ts.Select(old, ts.Add(src, ts.Sub(i, dst))), ts.Select(old, i)))
		st.assume(ts.Forall([]*Term{i}, ts.WithPatterns(body, []*Term{ts.Select(nw, i)})))
		st.heap[k.Key] = nw
	}
}

// zeroCells models freshly allocated zeroed cells [addr, addr+n).
func (fx *fctx) zeroCells(st *State, elemT types.Type, addr, n *Term) {
	e := fx.e
	ts := e.ts
	z := e.zeroValue(elemT)
	if n.Int != nil && n.Int.IsInt64() && n.Int.Int64() <= 8 {
		for i := int64(0); i < n.Int.Int64(); i++ {
			e.storeCell(st, "", ts.Add(addr, ts.Int(i)), elemT, z)
		}
		return
	}
	var zero func(key string, t types.Type, zv *Value)
	zero = func(key string, t types.Type, zv *Value) {
		k, s := e.classify(t)
		switch k {
		case kScalar, kArray:
			if key == "" {
				key = e.elemKey(t)
			}
			old := e.heapGet(st, key, ArrSort(s))
			nw := ts.Fresh("H."+key, ArrSort(s))
			i := ts.BoundVar("zi", SInt)
			in := ts.And(ts.Le(addr, i), ts.Lt(i, ts.Add(addr, n)))
			st.assume(ts.Forall([]*Term{i}, ts.WithPatterns(ts.Eq(ts.Select(nw, i), ts.Ite(in, zv.Tm, ts.Select(old, i))), []*Term{ts.Select(nw, i)})))
			st.heap[key] = nw
		case kSlice:
			if key == "" {
				key = e.elemKey(t)
			}
			for _, suf := range []string{"#p", "#l", "#c"} {
				old := e.heapGet(st, key+suf, ArrSort(SInt))
				nw := ts.Fresh("H."+key+suf, ArrSort(SInt))
				i := ts.BoundVar("zi", SInt)
				in := ts.And(ts.Le(addr, i), ts.Lt(i, ts.Add(addr, n)))
				st.assume(ts.Forall([]*Term{i}, ts.WithPatterns(ts.Eq(ts.Select(nw, i), ts.Ite(in, ts.Int(0), ts.Select(old, i))), []*Term{ts.Select(nw, i)})))
				st.heap[key+suf] = nw
			}
		case kStruct:
			sty := structOf(t)
			sn := e.structName(t)
			for j := 0; j < sty.NumFields(); j++ {
				zero(sn+"."+sty.Field(j).Name(), sty.Field(j).Type(), zv.St[sty.Field(j).Name()])
			}
		}
	}
	zero("", elemT, z)
}

// ---- static calls -------------------------------------------------------------------------

func (fx *fctx) callStatic(st *State, fn *types.Func, recvExpr ast.Expr, sel *types.Selection, ce *ast.CallExpr) []*Value {
	e := fx.e
	sig := fn.Type().(*types.Signature)
	// spec intrinsics
	if fn.Pkg() == e.P.Pkg.Types && sig.Recv() == nil {
		if r, ok := fx.intrinsic(st, fn.Name(), ce); ok {
			return r
		}
	}
	if r, ok := fx.syncModel(st, fn, recvExpr, ce); ok {
		return r
	}
	fi := e.P.FuncByObj[fn]
	if fi == nil && fn.Pkg() == e.P.Pkg.Types {
		// generic instance or method of instantiated type: look up by origin
		fi = e.P.FuncByObj[fn.Origin()]
	}
	var recv *Value
	if sig.Recv() != nil && recvExpr != nil {
		opaqueLocal := false
		if fi == nil {
			if id, ok := recvExpr.(*ast.Ident); ok {
				if v, ok := e.P.Info.ObjectOf(id).(*types.Var); ok && !fx.isGlobal(v) && e.isOpaqueStruct(v.Type()) {
					opaqueLocal = true
				}
			}
		}
		if opaqueLocal {
			recv = &Value{T: sig.Recv().Type(), Tm: e.ts.Fresh("opaque.recv", SInt)}
			st.assume(e.ts.Gt(recv.Tm, e.ts.Int(0)))
		} else {
			recv = fx.evalReceiver(st, recvExpr, sel, sig, ce)
		}
	}
	if fi == nil {
		return fx.callExternal(st, fn, recv, recvExpr, ce)
	}
	args := fx.evalArgs(st, ce, fi.Decl.Type, sig)
	con := e.P.CF.Contracts[fi.Key]
	if con != nil && strings.HasPrefix(fi.Decl.Name.Name, "lemma") {
		// lemma function: its contract is proved once (empty body); a call asserts the hypotheses and
		// assumes the conclusion, also from ghost code
		saved := fx.spec
		fx.spec = false
		for i, a := range args {
			if a.Tm != nil && a.Tm.Sort == SInt {
				if lo, hi, ok := intRange(sig.Params().At(i).Type()); ok {
					fx.assert(st, "lemma-arg-range", fi.Key, e.ts.And(e.ts.Le(e.ts.IntBig(lo), a.Tm), e.ts.Le(a.Tm, e.ts.IntBig(hi))), ce, nil, "lemma argument fits its parameter type")
				}
			}
		}
		r := fx.callContract(st, fi, con, recv, args, ce)
		fx.spec = saved
		return r
	}
	if fx.spec || (con != nil && con.Inline) || (con == nil && fi.File == ContractsFileName) {
		if !fx.spec && con != nil {
			// preconditions of inlined functions are still obligations of the caller
			bind := map[string]*Value{}
			if sig.Recv() != nil && recv != nil && sig.Recv().Name() != "" {
				bind[sig.Recv().Name()] = recv
			}
			for i := 0; i < sig.Params().Len() && i < len(args); i++ {
				if n := sig.Params().At(i).Name(); n != "" && n != "_" {
					bind[n] = args[i]
				}
			}
			fx.callOrd[fi.Key]++
			detail := fmt.Sprintf("%s.%d", fi.Key, fx.callOrd[fi.Key])
			if recv != nil && recv.Tm != nil && e.implicitRecvNonNil(fi, con) {
				g := e.ts.Ne(recv.Tm, e.ts.Int(0))
				fx.assert(st, "call-requires", detail+"/recv-nonnil", g, ce, nil, "receiver of "+fi.Key+" is not nil")
				st.assume(g)
			}
			for _, cl := range con.Requires {
				g := fx.evalClause(st, nil, cl, bind)
				if !(cl.ObjInv && fx.isClientOf(fi)) {
					fx.assert(st, "call-requires", detail+"/pre"+fmt.Sprint(cl.Ord), g, ce, propsOr(cl.Props, fx.props), "precondition of "+fi.Key+": "+cl.Text)
				}
				st.assume(g)
			}
		}
		if !fx.spec && con != nil {
			fx.hookRecv = recv
			fx.preCallHooks(st, ce, args)
			fx.hookRecv = nil
		}
		return fx.inlineBody(st, fi.Decl.Type, fi.Decl.Body, sig, fi.Decl.Recv, recv, args, ce)
	}
	if con == nil && fx.inlineDepth < 3 && e.autoInlinable(fi) {
		fx.preCallHooks(st, ce, args)
		// safety obligations inside the helper's body have the standing they have in the zero-annotation sweep: advisory,
		// claimed only once they are in the ledger (the helper has no contract that could carry the invariants they need)
		fx.autoInline++
		n0 := len(e.Obls)
		res := fx.inlineBody(st, fi.Decl.Type, fi.Decl.Body, sig, fi.Decl.Recv, recv, args, ce)
		fx.autoInline--
		if fx.autoInline == 0 {
			for _, o := range e.Obls[n0:] {
				if !o.Canary {
					o.Advisory = true
					o.Inlined = true
				}
			}
		}
		return res
	}
	return fx.callContract(st, fi, con, recv, args, ce)
}

// verifyLiteralArg: the function literal lit (argument of a call by contract) against its `closure litN` contract.
// The callee may run it any number of times, in states this function does not see: the literal's parameters, the
// captured variables it assigns and the whole heap are arbitrary, constrained only by the closure's `requires`
// (what the callee guarantees at each call — the callee's own proof asserts it, e.g. Range's precall assertion).
func (fx *fctx) verifyLiteralArg(st *State, lit *ast.FuncLit, ce *ast.CallExpr) {
	e := fx.e
	if fx.con == nil || fx.spec || st.dead {
		return
	}
	n := 0
	k := 0
	ast.Inspect(fx.fi.Decl.Body, func(nd ast.Node) bool {
		if l, ok := nd.(*ast.FuncLit); ok {
			k++
			if l == lit {
				n = k
			}
		}
		return true
	})
	name := fmt.Sprintf("lit%d", n)
	cc := fx.con.Closures[name]
	if n == 0 || cc == nil || fx.litDone[lit] {
		return
	}
	if fx.litDone == nil {
		fx.litDone = map[*ast.FuncLit]bool{}
	}
	fx.litDone[lit] = true
	sig, _ := e.P.Info.TypeOf(lit).(*types.Signature)
	if sig == nil {
		return
	}
	s := st.clone()
	for v := range fx.assignedIn([]ast.Node{lit.Body}) {
		cur, ok := s.vars[v]
		if !ok || cur.Cl != nil || fx.boxed[v] {
			continue
		}
		s.vars[v] = e.havocValue(s, v.Type(), v.Name())
	}
	e.havocAll(s)
	na := e.ts.Fresh("alloc", SInt)
	s.assume(e.ts.Ge(na, s.alloc))
	s.alloc = na
	var args []*Value
	pv := fx.declVars(lit.Type.Params)
	for i := 0; i < sig.Params().Len(); i++ {
		a := e.havocValue(s, sig.Params().At(i).Type(), "cbarg")
		fx.onRead(s, a, ce)
		args = append(args, a)
	}
	pos := lit.Body.Lbrace + 1
	b := fx.visibleBindings(s, pos)
	for i, p := range pv {
		if p != nil && i < len(args) {
			b[p.Name()] = args[i]
		}
	}
	for _, cl := range cc.Requires {
		s.assume(fx.evalClause(s, nil, cl, b))
	}
	if c := fx.assert(s, "vacuity", "closure-"+name, e.ts.False(), lit, nil, "canary: the closure's precondition is satisfiable (must be refutable)"); c != nil {
		c.Canary = true
	}
	pre := s.clone()
	savedCase := fx.caseLabel
	fx.caseLabel = ""
	res := fx.inlineBody(s, lit.Type, lit.Body, sig, nil, nil, args, ce)
	fx.caseLabel = savedCase
	if s.dead {
		return
	}
	b2 := fx.visibleBindings(s, pos)
	for i, p := range pv {
		if p != nil && i < len(args) {
			b2[p.Name()] = args[i]
		}
	}
	for i, r := range res {
		b2[fmt.Sprintf("result%d", i)] = r
		if len(res) == 1 {
			b2["result"] = r
		}
	}
	// old(x) of a captured variable is its value when the literal was entered
	for k, v := range fx.visibleBindings(pre, pos) {
		b2["old:"+k] = v
	}
	for _, cl := range cc.Ensures {
		g := fx.evalClause(s, pre, cl, b2)
		fx.assert(s, "closure-post", name+"/post"+fmt.Sprint(cl.Ord), g, lit, propsOr(cl.Props, fx.props), "postcondition of function literal "+name+": "+cl.Text)
	}
}

// recvTypeName: the receiver's named type of a method ("" for functions).
func recvTypeName(fi *FuncInfo) string {
	if fi == nil || fi.Obj == nil {
		return ""
	}
	sig, ok := fi.Obj.Type().(*types.Signature)
	if !ok || sig.Recv() == nil {
		return ""
	}
	t := sig.Recv().Type()
	if p, ok := t.(*types.Pointer); ok {
		t = p.Elem()
	}
	if n, ok := t.(*types.Named); ok {
		return n.Obj().Name()
	}
	return ""
}

// isClientOf: the function being verified is not a method of callee's receiver type, so the callee's object invariant
// (`holds`) may be assumed at the call (see the `holds` clause).
func (fx *fctx) isClientOf(callee *FuncInfo) bool {
	rt := recvTypeName(callee)
	if rt == "" || recvTypeName(fx.fi) == rt {
		return false
	}
	fx.e.Assumptions["object invariant of "+rt+" assumed at client call sites (justified by frame:"+rt+"/representation-private, frame:"+rt+"/methods-hold-invariant and the zero-value lemma)"] = true
	return true
}

// autoInlinable: an in-package function without a contract whose body is short, loop-free and calls nothing but
// externals, builtins and contracted functions is executed in place (instead of being havocked from its write set):
// extracting such a helper from a verified function does not break the proof of that function.
func (e *Engine) autoInlinable(fi *FuncInfo) bool {
	if os.Getenv("DSVC_NO_AUTOINLINE") != "" {
		return false
	}
	if e.autoInl == nil {
		e.autoInl = map[*FuncInfo]bool{}
	}
	if v, ok := e.autoInl[fi]; ok {
		return v
	}
	ok := fi.Decl != nil && fi.Decl.Body != nil && fi.File != GenFileName && fi.File != ContractsFileName
	n := 0
	if ok {
		ast.Inspect(fi.Decl.Body, func(nd ast.Node) bool {
			switch u := nd.(type) {
			case *ast.ForStmt, *ast.RangeStmt, *ast.GoStmt, *ast.DeferStmt, *ast.SelectStmt, *ast.FuncLit, *ast.LabeledStmt, *ast.BranchStmt:
				ok = false
			case ast.Stmt:
				n++
			case *ast.CallExpr:
				var fn *types.Func
				switch f := u.Fun.(type) {
				case *ast.Ident:
					fn, _ = e.P.Info.Uses[f].(*types.Func)
				case *ast.SelectorExpr:
					if sel := e.P.Info.Selections[f]; sel != nil {
						fn, _ = sel.Obj().(*types.Func)
					} else {
						fn, _ = e.P.Info.Uses[f.Sel].(*types.Func)
					}
				}
				if fn != nil && fn.Pkg() == e.P.Pkg.Types {
					cfi := e.P.FuncByObj[fn]
					if cfi == nil || e.P.CF.Contracts[cfi.Key] == nil {
						ok = false // calls another uncontracted in-package function
					}
				}
			}
			return ok
		})
	}
	if n > 12 {
		ok = false
	}
	e.autoInl[fi] = ok
	return ok
}

func (fx *fctx) evalReceiver(st *State, recvExpr ast.Expr, sel *types.Selection, sig *types.Signature, n ast.Node) *Value {
	e := fx.e
	rt := e.P.Info.TypeOf(recvExpr)
	_, wantPtr := sig.Recv().Type().Underlying().(*types.Pointer)
	_, havePtr := rt.Underlying().(*types.Pointer)
	// embedded promotion: walk the implicit field path
	if sel != nil && len(sel.Index()) > 1 {
		// receiver is an embedded field: x.Embedded.Method
		path := sel.Index()[:len(sel.Index())-1]
		cur := rt
		var v *Value
		if havePtr {
			v = fx.eval(st, recvExpr)
			fx.check(st, "nil", abbrev(e.exprStr(recvExpr)), e.ts.Ne(v.Tm, e.ts.Int(0)), n, "nil receiver")
			cur = rt.Underlying().(*types.Pointer).Elem()
			addr := v.Tm
			for _, i := range path {
				sty := structOf(cur)
				f := sty.Field(i)
				if _, ok := f.Type().Underlying().(*types.Pointer); ok {
					pv := e.loadCell(st, e.structName(cur)+"."+f.Name(), addr, f.Type())
					addr = pv.Tm
					cur = f.Type().Underlying().(*types.Pointer).Elem()
				} else {
					cur = f.Type() // offset-0 rule: same address
				}
			}
			if wantPtr {
				return &Value{T: sig.Recv().Type(), Tm: addr}
			}
			return e.loadCell(st, "", addr, cur)
		}
		e.unsup(n, "promoted method on a struct value")
	}
	switch {
	case wantPtr && havePtr, !wantPtr && !havePtr:
		return fx.eval(st, recvExpr)
	case wantPtr && !havePtr:
		// implicit &x
		return fx.evalAddrOf(st, &ast.UnaryExpr{Op: token.AND, X: recvExpr, OpPos: recvExpr.Pos()})
	default:
		p := fx.eval(st, recvExpr)
		fx.check(st, "nil", abbrev(e.exprStr(recvExpr)), e.ts.Ne(p.Tm, e.ts.Int(0)), n, "nil pointer dereference (value receiver)")
		return e.loadCell(st, "", p.Tm, rt.Underlying().(*types.Pointer).Elem())
	}
}

// paramVars returns the *types.Var objects of receiver and parameters as declared in a FuncType/recv list.
func (fx *fctx) declVars(fl *ast.FieldList) []*types.Var {
	var out []*types.Var
	if fl == nil {
		return nil
	}
	for _, f := range fl.List {
		if len(f.Names) == 0 {
			out = append(out, nil)
			continue
		}
		for _, n := range f.Names {
			v, _ := fx.e.P.Info.Defs[n].(*types.Var)
			out = append(out, v)
		}
	}
	return out
}

// inlineBody symbolically executes a function body in place (closures, spec functions, `inline` contracts).
func (fx *fctx) inlineBody(st *State, ft *ast.FuncType, body *ast.BlockStmt, sig *types.Signature, recvList *ast.FieldList, recv *Value, args []*Value, n ast.Node) []*Value {
	e := fx.e
	if fx.inlineDepth > 12 {
		e.unsup(n, "inlining too deep (recursion?)")
	}
	fx.inlineDepth++
	defer func() { fx.inlineDepth-- }()
	fx.scanBoxed(body)
	if recvList != nil {
		rv := fx.declVars(recvList)
		if len(rv) == 1 && rv[0] != nil && recv != nil {
			fx.bindVar(st, rv[0], recv)
		}
	}
	pv := fx.declVars(ft.Params)
	for i, v := range pv {
		if v != nil && i < len(args) {
			fx.bindVar(st, v, args[i])
		}
	}
	frame := &retFrame{nres: sig.Results().Len()}
	for i := 0; i < sig.Results().Len(); i++ {
		frame.resTypes = append(frame.resTypes, sig.Results().At(i).Type())
	}
	if ft.Results != nil {
		for _, v := range fx.declVars(ft.Results) {
			if v != nil {
				frame.results = append(frame.results, v)
				fx.bindVar(st, v, e.zeroValue(v.Type()))
			}
		}
	}
	fx.retFrames = append(fx.retFrames, frame)
	savedJumps := fx.jumps
	fx.jumps = nil
	end := fx.execBlock(st, body.List)
	fx.jumps = savedJumps
	fx.retFrames = fx.retFrames[:len(fx.retFrames)-1]
	if !end.dead {
		// fell off the end: implicit return (only legal without results or with named results)
		var vals []*Value
		for _, v := range frame.results {
			vals = append(vals, fx.readVar(end, v))
		}
		frame.rets = append(frame.rets, &retState{st: end, vals: vals})
	}
	var states []*State
	for _, r := range frame.rets {
		states = append(states, r.st)
	}
	nres := sig.Results().Len()
	if len(states) == 0 {
		st.dead = true
		st.assume(e.ts.False())
		out := make([]*Value, nres)
		for i := range out {
			out[i] = e.zeroValue(sig.Results().At(i).Type())
		}
		return out
	}
	// merge result values together with the states: stash them in temporary variables
	tmp := make([]*types.Var, nres)
	for i := 0; i < nres; i++ {
		tmp[i] = types.NewVar(token.NoPos, nil, fmt.Sprintf("$ret%d", i), sig.Results().At(i).Type())
		for _, r := range frame.rets {
			if i < len(r.vals) {
				r.st.vars[tmp[i]] = r.vals[i]
			}
		}
	}
	fx.settleDirty(states, n)
	m := e.merge(states)
	out := make([]*Value, nres)
	for i := 0; i < nres; i++ {
		out[i] = m.vars[tmp[i]]
		delete(m.vars, tmp[i])
		if out[i] == nil {
			out[i] = e.zeroValue(sig.Results().At(i).Type())
		}
	}
	*st = *m
	return out
}

func (fx *fctx) bindVar(st *State, v *types.Var, val *Value) {
	e := fx.e
	val = fx.convertForAssign(st, val, v.Type())
	if fx.boxed[v] {
		addr := e.allocCells(st, e.ts.Int(1))
		if fx.localAddr == nil {
			fx.localAddr = map[int]bool{}
		}
		fx.localAddr[addr.id] = true
		e.storeCell(st, "", addr, v.Type(), val)
		st.vars[v] = &Value{T: types.NewPointer(v.Type()), Tm: addr}
		return
	}
	st.vars[v] = val
}

func (fx *fctx) readVar(st *State, v *types.Var) *Value {
	val := st.vars[v]
	if val == nil {
		return fx.e.zeroValue(v.Type())
	}
	if fx.boxed[v] {
		return fx.e.loadCell(st, "", val.Tm, v.Type())
	}
	return val
}

// scanBoxed marks local variables whose address is taken.
func (fx *fctx) scanBoxed(body ast.Node) {
	info := fx.e.P.Info
	ast.Inspect(body, func(n ast.Node) bool {
		switch u := n.(type) {
		case *ast.UnaryExpr:
			if u.Op != token.AND {
				return true
			}
			x := u.X
			for {
				if p, ok := x.(*ast.ParenExpr); ok {
					x = p.X
					continue
				}
				break
			}
			if id, ok := x.(*ast.Ident); ok {
				if v, ok := info.ObjectOf(id).(*types.Var); ok && !fx.isGlobal(v) {
					fx.boxed[v] = true
				}
			}
		case *ast.CallExpr:
			// implicit &x for pointer-receiver methods on addressable locals of in-package struct types
			if se, ok := u.Fun.(*ast.SelectorExpr); ok {
				if sel := info.Selections[se]; sel != nil && sel.Kind() == types.MethodVal {
					if sig, ok := sel.Obj().Type().(*types.Signature); ok && sig.Recv() != nil {
						if _, wantPtr := sig.Recv().Type().Underlying().(*types.Pointer); wantPtr {
							if id, ok := se.X.(*ast.Ident); ok {
								if v, ok := info.ObjectOf(id).(*types.Var); ok && !fx.isGlobal(v) {
									if _, isPtr := v.Type().Underlying().(*types.Pointer); !isPtr && !fx.e.isOpaqueStruct(v.Type()) {
										fx.boxed[v] = true
									}
								}
							}
						}
					}
				}
			}
		}
		return true
	})
}

// ---- modular call through a contract ---------------------------------------------------------

func (fx *fctx) callContract(st *State, fi *FuncInfo, con *Contract, recv *Value, args []*Value, ce *ast.CallExpr) []*Value {
	e := fx.e
	ts := e.ts
	sig := fi.Obj.Type().(*types.Signature)
	bind := map[string]*Value{}
	if sig.Recv() != nil && recv != nil && sig.Recv().Name() != "" {
		bind[sig.Recv().Name()] = recv
	}
	for i := 0; i < sig.Params().Len() && i < len(args); i++ {
		if n := sig.Params().At(i).Name(); n != "" && n != "_" {
			bind[n] = args[i]
		}
	}
	fx.hookRecv = recv
	fx.preCallHooks(st, ce, args)
	fx.hookRecv = nil
	fx.callOrd[fi.Key]++
	detail := fmt.Sprintf("%s.%d", fi.Key, fx.callOrd[fi.Key])
	// function literals handed to a callee that is called by contract are never executed here; one that has a
	// `closure litN` contract is verified once, as a unit, from an arbitrary state
	for _, a := range args {
		if a != nil && a.Cl != nil {
			fx.verifyLiteralArg(st, a.Cl.Lit, ce)
		}
	}
	// value-level type invariants on arguments (e.g. wf of *VMValue) are asserted by the escape hook
	fx.beforeCall(st, recv, args, ce)
	if recv != nil && recv.Tm != nil && e.implicitRecvNonNil(fi, con) {
		g := e.ts.Ne(recv.Tm, e.ts.Int(0))
		fx.assert(st, "call-requires", detail+"/recv-nonnil", g, ce, nil, "receiver of "+fi.Key+" is not nil")
		st.assume(g)
	}
	if con != nil {
		for _, cl := range con.Requires {
			g := fx.evalClause(st, nil, cl, bind)
			props := cl.Props
			if !(cl.ObjInv && fx.isClientOf(fi)) {
				fx.assert(st, "call-requires", detail+"/pre"+fmt.Sprint(cl.Ord), g, ce, propsOr(props, fx.props), "precondition of "+fi.Key+": "+cl.Text)
			}
			st.assume(g)
		}
	}
	pre := st.clone()
	// frame
	fx.havocForCall(st, fi, con)
	fx.restrictedFrame(st, pre, fi, con, bind, ce)
	fx.protectFrame(st, pre)
	// results
	var results []*Value
	for i := 0; i < sig.Results().Len(); i++ {
		r := e.havocValue(st, sig.Results().At(i).Type(), fi.Decl.Name.Name+".ret")
		results = append(results, r)
		name := fmt.Sprintf("result%d", i)
		bind[name] = r
		if sig.Results().Len() == 1 {
			bind["result"] = r
		}
		if rn := sig.Results().At(i).Name(); rn != "" && rn != "_" {
			if _, clash := bind[rn]; !clash {
				bind[rn] = r
			}
		}
	}
	if con != nil {
		for _, cl := range con.Ensures {
			st.assume(fx.evalClause(st, pre, cl, bind))
		}
	}
	for _, r := range results {
		fx.onRead(st, r, ce)
	}
	fx.afterCall(st, ce)
	_ = ts
	return results
}

func propsOr(a, b []string) []string {
	if len(a) > 0 {
		return a
	}
	return b
}

// havocForCall forgets the heaps the callee may write: the contract's assigns clause, or the
// transitive write set computed by the frame pass.
func (fx *fctx) havocForCall(st *State, fi *FuncInfo, con *Contract) {
	e := fx.e
	ts := e.ts
	var ws []string
	top := false
	allocs := true
	if con != nil && con.HasAssigns {
		ws = con.Assigns
		for _, w := range ws {
			if w == "*" {
				top = true
			}
		}
		// the assigns clause is checked against the frame pass when the callee is verified
	} else if e.effects != nil && fi.Obj != nil && e.effects.Trans[fi.Obj] != nil {
		t := e.effects.Trans[fi.Obj]
		top = t.Top
		ws = keysList(t.Writes)
		allocs = t.Allocates || t.Top
	} else {
		top = true
	}
	if top {
		e.havocAll(st)
	} else if len(ws) > 0 {
		e.havocMatching(st, func(k string) bool {
			for _, w := range ws {
				if matchKey(k, w) {
					return true
				}
			}
			return false
		})
	}
	if allocs || top {
		na := ts.Fresh("alloc", SInt)
		st.assume(ts.Ge(na, st.alloc))
		st.alloc = na
	}
}

// sortOfFieldKey: the SMT sort of the heap named "Struct.field" (scalar fields only).
func (e *Engine) sortOfFieldKey(key string) (Sort, bool) {
	key = baseKey(key)
	k := strings.Index(key, ".")
	if k < 0 {
		return "", false
	}
	obj := e.P.Pkg.Types.Scope().Lookup(key[:k])
	if obj == nil {
		return "", false
	}
	sty := structOf(obj.Type())
	if sty == nil {
		return "", false
	}
	for i := 0; i < sty.NumFields(); i++ {
		if sty.Field(i).Name() == key[k+1:] {
			kd, s := e.classify(sty.Field(i).Type())
			if kd == kScalar {
				return s, true
			}
		}
	}
	return "", false
}

// allowedWriteAddr: under `assigns K@p...` of the function being verified, address a may be written iff it is the
// entry value of one of the named parameters or an object allocated during this call.
func (fx *fctx) allowedWriteAddr(key string, a *Term) *Term {
	ts := fx.e.ts
	var alts []*Term
	for _, par := range fx.con.AssignsAt[key] {
		if v := fx.entryBind[par]; v != nil && v.Tm != nil {
			alts = append(alts, ts.Eq(a, v.Tm))
		}
	}
	if fx.entry != nil && fx.entry.alloc != nil {
		alts = append(alts, ts.Ge(a, fx.entry.alloc))
	}
	return ts.Or(alts...)
}

// restrictedFrame: (1) callee side of `assigns K@p`: heap K changes only at the named objects; (2) when the function
// being verified itself promises `K@q`, a callee that may write K must be restricted to allowed addresses.
func (fx *fctx) restrictedFrame(st *State, pre *State, fi *FuncInfo, con *Contract, bind map[string]*Value, ce *ast.CallExpr) {
	e := fx.e
	ts := e.ts
	if con != nil {
		for _, key := range sortedStrKeys(con.AssignsAt) {
			s, ok := e.sortOfFieldKey(key)
			if !ok {
				e.unsup(ce, "assigns %s@...: not a scalar struct field", key)
			}
			h := e.heapGet(pre, key, ArrSort(s))
			for _, par := range con.AssignsAt[key] {
				v := bind[par]
				if v == nil || v.Tm == nil {
					e.unsup(ce, "assigns %s@%s: no such pointer parameter", key, par)
				}
				h = ts.Store(h, v.Tm, ts.Fresh("at."+key, s))
			}
			// objects allocated by the callee are unconstrained: they lie at or above the old frontier, where nothing was readable before
			nh := ts.Fresh("H."+key, ArrSort(s))
			bv := ts.BoundVar("a", SInt)
			st.assume(ts.Forall([]*Term{bv}, ts.Implies(ts.Lt(bv, pre.alloc), ts.Eq(ts.Select(nh, bv), ts.Select(h, bv)))))
			st.heap[key] = nh
		}
	}
	if fx.con == nil || len(fx.con.AssignsAt) == 0 || fx.spec {
		return
	}
	var ws []string
	if con != nil && con.HasAssigns {
		ws = con.Assigns
	} else if e.effects != nil && fi.Obj != nil && e.effects.Trans[fi.Obj] != nil {
		ws = keysList(e.effects.Trans[fi.Obj].Writes)
		if e.effects.Trans[fi.Obj].Top {
			ws = append(ws, "*")
		}
	} else {
		ws = []string{"*"}
	}
	for _, key := range sortedStrKeys(fx.con.AssignsAt) {
		hit := false
		for _, w := range ws {
			if matchKey(key, w) {
				hit = true
			}
		}
		if !hit {
			continue
		}
		goal := ts.False()
		if con != nil && len(con.AssignsAt[key]) > 0 {
			var gs []*Term
			for _, par := range con.AssignsAt[key] {
				if v := bind[par]; v != nil && v.Tm != nil {
					gs = append(gs, fx.allowedWriteAddr(key, v.Tm))
				}
			}
			goal = ts.And(gs...)
		}
		fx.assert(pre, "assigns-at", fi.Key+"/"+key, goal, ce, nil, "callee writes "+key+" only where this function may ("+strings.Join(fx.con.AssignsAt[key], ", ")+" or fresh objects)")
	}
}

func sortedStrKeys(m map[string][]string) []string {
	var out []string
	for k := range m {
		out = append(out, k)
	}
	sort.Strings(out)
	return out
}

// havocMatching forgets every heap whose key satisfies match, including heaps not materialised yet.
func (e *Engine) havocMatching(st *State, match func(string) bool) {
	snap := st.clone()
	e.baseSeq++
	id := e.baseSeq
	for k, h := range st.heap {
		if match(k) && !strings.HasPrefix(k, "box.") {
			st.heap[k] = e.ts.Var(fmt.Sprintf("H%d.%s", id, k), h.Sort)
		}
	}
	st.base = &heapBase{id: id, get: func(key string, sort Sort) *Term {
		if match(key) && !strings.HasPrefix(key, "box.") {
			return e.ts.Var(fmt.Sprintf("H%d.%s", id, key), sort)
		}
		return e.heapGet(snap, key, sort)
	}}
}

// evalClause evaluates a contract clause (a synthetic Go function `return <expr>`) in spec mode.
func (fx *fctx) evalClause(st *State, old *State, cl *Clause, bind map[string]*Value) *Term {
	v := fx.evalClauseValue(st, old, cl, bind)
	if v.Tm == nil || v.Tm.Sort != SBool {
		panic(unsupported{fmt.Sprintf("contracts:%d: clause is not boolean", cl.Line)})
	}
	return v.Tm
}

func (fx *fctx) evalClauseValue(st *State, old *State, cl *Clause, bind map[string]*Value) *Value {
	e := fx.e
	if cl.Fn == nil {
		panic(unsupported{fmt.Sprintf("contracts:%d: clause has no synthetic function", cl.Line)})
	}
	s2 := st.clone()
	for _, v := range fx.declVars(cl.Fn.Type.Params) {
		if v == nil {
			continue
		}
		if b, ok := bind[v.Name()]; ok && b != nil {
			s2.vars[v] = b
		} else {
			// not bound at this program point (e.g. a local declared later): arbitrary
			q := s2.clone()
			q.quiet = true
			s2.vars[v] = e.havocValue(q, v.Type(), "unbound."+v.Name())
		}
	}
	savedSpec, savedOld := fx.spec, fx.oldState
	fx.spec = true
	if old != nil {
		fx.oldState = old
	}
	defer func() { fx.spec, fx.oldState = savedSpec, savedOld }()
	ret, ok := cl.Fn.Body.List[0].(*ast.ReturnStmt)
	if !ok || len(ret.Results) != 1 {
		panic(unsupported{fmt.Sprintf("contracts:%d: malformed clause function", cl.Line)})
	}
	// bind old-state copies of the parameters too (old(x) of a parameter is its entry value)
	if fx.oldState != nil {
		for _, v := range fx.declVars(cl.Fn.Type.Params) {
			if v == nil {
				continue
			}
			if b, ok := bind["old:"+v.Name()]; ok {
				fx.oldState.vars[v] = b
			} else if b, ok := bind[v.Name()]; ok && b != nil {
				if _, has := fx.oldState.vars[v]; !has {
					fx.oldState.vars[v] = b
				}
			}
		}
	}
	val := fx.eval(s2, ret.Results[0])
	// facts discovered while reading the heap in the clause are kept (they are type facts)
	if !st.quiet {
		for _, f := range s2.pc[len(st.pc):] {
			st.pc = append(st.pc, f)
		}
	}
	_ = e
	return val
}

// ---- intrinsics ---------------------------------------------------------------------------

func (fx *fctx) intrinsic(st *State, name string, ce *ast.CallExpr) ([]*Value, bool) {
	e := fx.e
	ts := e.ts
	t := e.P.Info.TypeOf(ce)
	switch name {
	case "old":
		if fx.oldState == nil {
			e.unsup(ce, "old() outside a two-state clause")
		}
		os := fx.oldState.clone()
		os.quiet = true
		// locals of the clause function are bound in the current state only
		for k, v := range st.vars {
			if _, ok := os.vars[k]; !ok {
				os.vars[k] = v
			}
		}
		saved := fx.oldState
		v := fx.eval(os, ce.Args[0])
		fx.oldState = saved
		return []*Value{v}, true
	case "atLoopEntry":
		if len(fx.loopPre) == 0 {
			e.unsup(ce, "atLoopEntry outside a loop clause")
		}
		os := fx.loopPre[len(fx.loopPre)-1].clone()
		os.quiet = true
		for k, v := range st.vars {
			if _, ok := os.vars[k]; !ok {
				os.vars[k] = v
			}
		}
		// clause parameters are bound by name to the values at loop entry
		b := fx.visibleBindings(os, ce.Pos())
		_ = b
		return []*Value{fx.evalAtState(os, ce.Args[0])}, true
	case "implies":
		a := fx.evalBool(st, ce.Args[0])
		b := fx.evalBool(st, ce.Args[1])
		return []*Value{{T: t, Tm: ts.Implies(a, b)}}, true
	case "forall", "exists":
		lo := fx.evalInt(st, ce.Args[0])
		hi := fx.evalInt(st, ce.Args[1])
		lit, ok := ce.Args[2].(*ast.FuncLit)
		if !ok {
			e.unsup(ce, "quantifier body must be a function literal")
		}
		pv := fx.declVars(lit.Type.Params)
		bv := ts.BoundVar(pv[0].Name(), SInt)
		qs := st.clone()
		qs.quiet = true
		qs.vars[pv[0]] = &Value{T: pv[0].Type(), Tm: bv}
		ret := lit.Body.List[0].(*ast.ReturnStmt)
		savedSpec := fx.spec
		fx.spec = true
		body := fx.evalBool(qs, ret.Results[0])
		fx.spec = savedSpec
		rng := ts.And(ts.Le(lo, bv), ts.Lt(bv, hi))
		if name == "forall" {
			return []*Value{{T: t, Tm: ts.Forall([]*Term{bv}, ts.Implies(rng, body))}}, true
		}
		return []*Value{{T: t, Tm: ts.Exists([]*Term{bv}, ts.And(rng, body))}}, true
	case "forallStr":
		lit, ok := ce.Args[0].(*ast.FuncLit)
		if !ok {
			e.unsup(ce, "quantifier body must be a function literal")
		}
		pv := fx.declVars(lit.Type.Params)
		bv := ts.BoundVar(pv[0].Name(), SStr)
		qs := st.clone()
		qs.quiet = true
		qs.vars[pv[0]] = &Value{T: pv[0].Type(), Tm: bv}
		ret := lit.Body.List[0].(*ast.ReturnStmt)
		savedSpec := fx.spec
		fx.spec = true
		body := fx.evalBool(qs, ret.Results[0])
		fx.spec = savedSpec
		return []*Value{{T: t, Tm: ts.Forall([]*Term{bv}, body)}}, true
	case "mapHas":
		mv := fx.eval(st, ce.Args[0])
		kv := fx.eval(st, ce.Args[1])
		mt := e.mapModelled(mv.T)
		if mt == nil {
			e.unsup(ce, "mapHas on a map type without `mapmodel`")
		}
		return []*Value{{T: t, Tm: e.mapHas(st, e.mapHeapsOf(mt), mv.Tm, kv.Tm)}}, true
	case "sameMap":
		a := fx.eval(st, ce.Args[0])
		b := fx.eval(st, ce.Args[1])
		return []*Value{{T: t, Tm: ts.Eq(a.Tm, b.Tm)}}, true
	case "rangeSeen":
		kv := fx.eval(st, ce.Args[0])
		var sv *types.Var
		if n := len(fx.rangeSeen); n > 0 {
			sv = fx.rangeSeen[n-1]
		} else {
			sv = fx.lastRangeSeen
		}
		if sv == nil || st.vars[sv] == nil {
			e.unsup(ce, "rangeSeen outside a range loop over a modelled map")
		}
		return []*Value{{T: t, Tm: ts.Select(st.vars[sv].Tm, kv.Tm)}}, true
	case "rngPos":
		src := fx.eval(st, ce.Args[0])
		return []*Value{{T: t, Tm: ts.Select(e.heapGet(st, "rng.pos", ArrSort(SInt)), src.Tm)}}, true
	case "rngDraw":
		src := fx.eval(st, ce.Args[0])
		k := fx.evalInt(st, ce.Args[1])
		return []*Value{{T: t, Tm: ts.App("rng_draw", SInt, src.Tm, k)}}, true
	case "psum":
		s := fx.eval(st, ce.Args[0])
		n := fx.evalInt(st, ce.Args[1])
		el := s.T.Underlying().(*types.Slice).Elem()
		h := e.heapGet(st, e.elemKey(el), ArrSort(SInt))
		return []*Value{{T: t, Tm: e.psumTerm(h, s.Sl.Ptr, n)}}, true
	case "ghostAssume":
		// ghostAssume(b, "why"): an explicit, listed assumption (interface contract established elsewhere)
		g := fx.evalBool(st, ce.Args[0])
		why := "ghost assumption"
		if len(ce.Args) > 1 {
			if tv, ok := e.P.Info.Types[ce.Args[1]]; ok && tv.Value != nil {
				why = constantString(tv.Value)
			}
		}
		e.Assumptions["ASSUMED in "+fx.fi.Key+": "+why] = true
		st.assume(g)
		return nil, true
	case "ghostProtectFields":
		// ghostProtectFields(p, "f1", "f2", ...): the named fields of the object p points to are private to this frame
		pv := fx.eval(st, ce.Args[0])
		pt, ok := pv.T.Underlying().(*types.Pointer)
		if !ok {
			e.unsup(ce, "ghostProtectFields needs a pointer")
		}
		sty := structOf(pt.Elem())
		for _, a := range ce.Args[1:] {
			tv, ok := e.P.Info.Types[a]
			if !ok || tv.Value == nil {
				e.unsup(ce, "ghostProtectFields needs constant field names")
			}
			name := constantString(tv.Value)
			found := false
			for i := 0; i < sty.NumFields(); i++ {
				if sty.Field(i).Name() == name {
					found = true
					key := e.structName(pt.Elem()) + "." + name
					dup := false
					for _, c := range fx.protCells {
						if c.addr == pv.Tm && c.key == key {
							dup = true
						}
					}
					if !dup {
						fx.protCells = append(fx.protCells, protCell{pv.Tm, key, sty.Field(i).Type()})
					}
				}
			}
			if !found {
				e.unsup(ce, "no field %s", name)
			}
		}
		e.Assumptions["ASSUMED in "+fx.fi.Key+": the VM registers of this context (code, codeIndex, stack, top) are not modified by callees; in-package part discharged by frame:vm-registers-privacy, host callbacks assumed not to re-enter the running context"] = true
		return nil, true
	case "ghostProtect":
		// ghostProtect(s): the elements of slice s are private to this frame: calls leave them unchanged
		// (justified by the frame obligation frame:stack-privacy and the host-callback assumption)
		sv := fx.eval(st, ce.Args[0])
		if sv.Sl == nil {
			e.unsup(ce, "ghostProtect needs a slice")
		}
		for _, p := range fx.protected {
			if p.ptr == sv.Sl.Ptr && p.n == sv.Sl.Len {
				return nil, true
			}
		}
		var fields []string
		for _, a := range ce.Args[1:] {
			if tv, ok := e.P.Info.Types[a]; ok && tv.Value != nil {
				fields = append(fields, constantString(tv.Value))
			}
		}
		fx.protected = append(fx.protected, protRegion{sv.Sl.Ptr, sv.Sl.Len, sv.T.Underlying().(*types.Slice).Elem(), fields})
		e.Assumptions["ASSUMED in "+fx.fi.Key+": elements of a protected slice (the VM's operand stack) are not modified by callees; in-package part discharged by frame:stack-privacy, host callbacks assumed not to touch VM internals"] = true
		return nil, true
	case "ghostAssert":
		// ghostAssert(b): proof obligation raised from ghost code
		g := fx.evalBool(st, ce.Args[0])
		saved := fx.spec
		fx.spec = false
		fx.assert(st, "ghost-assert", abbrev(e.exprStr(ce.Args[0])), g, ce, nil, "ghost assertion: "+e.exprStr(ce.Args[0]))
		fx.spec = saved
		st.assume(g)
		return nil, true
	case "wrapInt":
		x := fx.evalInt(st, ce.Args[0])
		return []*Value{{T: t, Tm: ts.App("wrap_i64", SInt, x)}}, true
	case "jsonInt", "jsonFloat", "jsonStr":
		// jsonInt(b, "path"): the integer the JSON document in b holds at the tag path (encoding/json document model)
		b := fx.eval(st, ce.Args[0])
		path := ""
		if tv, ok := e.P.Info.Types[ce.Args[1]]; ok && tv.Value != nil {
			path = constantString(tv.Value)
		}
		if b == nil || b.Sl == nil || path == "" {
			e.unsup(ce, name+" needs a byte slice and a constant path")
		}
		doc := ts.App("json_doc", SInt, b.Sl.Ptr, b.Sl.Len)
		pid := ts.Int(int64(e.tagOfName("jsonpath:" + path)))
		switch name {
		case "jsonInt":
			return []*Value{{T: t, Tm: ts.App("json_int", SInt, doc, pid)}}, true
		case "jsonFloat":
			return []*Value{{T: t, Tm: ts.App("json_flt", SFlt, doc, pid)}}, true
		}
		return []*Value{{T: t, Tm: ts.App("json_str", SStr, doc, pid)}}, true
	case "strLine":
		a := fx.eval(st, ce.Args[0])
		k := fx.evalInt(st, ce.Args[1])
		return []*Value{{T: t, Tm: ts.App("str_line", SStr, a.Tm, k)}}, true
	case "strLineCount":
		a := fx.eval(st, ce.Args[0])
		return []*Value{{T: t, Tm: ts.App("str_linecount", SInt, a.Tm)}}, true
	case "sameFloat":
		// sameFloat(a, b): the two floats are the same value (identity, unlike Go's ==, which is false for NaN)
		a := fx.eval(st, ce.Args[0])
		b := fx.eval(st, ce.Args[1])
		return []*Value{{T: t, Tm: ts.Eq(a.Tm, b.Tm)}}, true
	case "sharedBuiltin":
		// sharedBuiltin(p): p is one of the package's shared built-in values (uninterpreted; see mapvals)
		p := fx.eval(st, ce.Args[0])
		return []*Value{{T: t, Tm: ts.App("shared_builtin", SBool, p.Tm)}}, true
	case "rngSame":
		if fx.oldState == nil {
			e.unsup(ce, "rngSame outside two-state clause")
		}
		return []*Value{{T: t, Tm: ts.Eq(e.heapGet(st, "rng.pos", ArrSort(SInt)), e.heapGet(fx.oldState, "rng.pos", ArrSort(SInt)))}}, true
	case "rngOnly":
		// rngOnly(src): no source other than src was drawn from since the old state
		if fx.oldState == nil {
			e.unsup(ce, "rngOnly outside two-state clause")
		}
		src := fx.eval(st, ce.Args[0])
		a := ts.BoundVar("rs", SInt)
		nowH := e.heapGet(st, "rng.pos", ArrSort(SInt))
		oldH := e.heapGet(fx.oldState, "rng.pos", ArrSort(SInt))
		return []*Value{{T: t, Tm: ts.Forall([]*Term{a}, ts.Implies(ts.Ne(a, src.Tm), ts.Eq(ts.Select(nowH, a), ts.Select(oldH, a))))}}, true
	case "isFresh":
		// isFresh(x): slice or pointer x is nil or was allocated after function entry
		v := fx.eval(st, ce.Args[0])
		if fx.entry == nil {
			e.unsup(ce, "isFresh without entry state")
		}
		var p *Term
		if v.Sl != nil {
			p = v.Sl.Ptr
		} else {
			p = v.Tm
		}
		base := fx.entry.alloc
		if fx.oldState != nil {
			base = fx.oldState.alloc
		}
		return []*Value{{T: t, Tm: ts.Or(ts.Eq(p, ts.Int(0)), ts.Ge(p, base))}}, true
	case "allocated":
		p := fx.eval(st, ce.Args[0])
		return []*Value{{T: t, Tm: ts.And(ts.Gt(p.Tm, ts.Int(0)), ts.Lt(p.Tm, st.alloc))}}, true
	case "freshPtr":
		// freshPtr(p): p was allocated after the entry state of the enclosing two-state clause
		p := fx.eval(st, ce.Args[0])
		if fx.oldState == nil {
			e.unsup(ce, "freshPtr outside two-state clause")
		}
		return []*Value{{T: t, Tm: ts.And(ts.Ge(p.Tm, fx.oldState.alloc), ts.Lt(p.Tm, st.alloc))}}, true
	case "dynInt", "dynFloat", "dynStr":
		a := fx.eval(st, ce.Args[0])
		var ty types.Type
		switch name {
		case "dynInt":
			ty = e.lookupType("IntType")
		case "dynFloat":
			ty = types.Typ[types.Float64]
		case "dynStr":
			ty = types.Typ[types.String]
		}
		return []*Value{{T: t, Tm: e.hasDynType(a.Tm, ty)}}, true
	}
	if strings.HasPrefix(name, "dynIs") {
		// dynIsX(a): a holds *X
		a := fx.eval(st, ce.Args[0])
		ty := e.lookupType(strings.TrimPrefix(name, "dynIs"))
		if ty != nil {
			return []*Value{{T: t, Tm: e.hasDynType(a.Tm, types.NewPointer(ty))}}, true
		}
	}
	return nil, false
}

func (e *Engine) lookupType(name string) types.Type {
	o := e.P.Pkg.Types.Scope().Lookup(name)
	if o == nil {
		return nil
	}
	return o.Type()
}

// ---- dynamic calls (host callbacks) ---------------------------------------------------------

func (fx *fctx) callDynamic(st *State, fv *Value, what string, ce *ast.CallExpr) []*Value {
	e := fx.e
	ts := e.ts
	sig, _ := e.P.Info.TypeOf(ce.Fun).Underlying().(*types.Signature)
	if sig == nil {
		e.unsup(ce, "dynamic call without signature")
	}
	if fv.Cl != nil {
		args := fx.evalArgs(st, ce, fv.Cl.Lit.Type, sig)
		return fx.inlineBody(st, fv.Cl.Lit.Type, fv.Cl.Lit.Body, sig, nil, nil, args, ce)
	}
	if fv.Table != nil {
		return fx.callTable(st, fv.Table, sig, ce)
	}
	fx.check(st, "nilfunc", abbrev(e.exprStr(ce.Fun)), ts.Ne(fv.Tm, ts.Int(0)), ce, "call of nil function value")
	args := fx.evalArgs(st, ce, nil, sig)
	fx.preCallHooks(st, ce, args)
	fx.beforeCall(st, nil, args, ce)
	// host code must not receive pointers into a protected slice (the operand stack): the slot is reused by later
	// instructions, and the protection argument is that nobody else can reach it
	if len(fx.protected) > 0 && !fx.spec {
		for i, a := range args {
			if a != nil && a.Raw && a.Tm != nil {
				g := ts.False()
				if a.RawC != nil {
					g = ts.Not(a.RawC)
				}
				g = ts.Or(ts.Eq(a.Tm, ts.Int(0)), g)
				fx.assert(st, "raw-alias", fmt.Sprintf("arg%d", i), g, ce, nil, "no pointer into a protected slice (the operand stack) is handed to a host callback")
			}
		}
	}
	e.Assumptions["host callback ("+what+") returns normally and respects type invariants"] = true
	preCB := st.clone()
	// `callbacks-keep`: heaps the callback is assumed not to modify are materialised before and restored after the havoc
	type keptHeap struct {
		key  string
		sort Sort
	}
	var kept []keptHeap
	if fx.con != nil && len(fx.con.CallbackKeep) > 0 {
		for _, k := range fx.con.CallbackKeep {
			if strings.HasPrefix(k, "map.") {
				for _, mt := range e.modelledMapTypes() {
					h := e.mapHeapsOf(mt)
					if h.base == k {
						kept = append(kept, keptHeap{h.base + "#dom", h.domS}, keptHeap{h.base + "#val", h.valS}, keptHeap{h.base + "#len", ArrSort(SInt)})
					}
				}
				continue
			}
			if strings.HasPrefix(k, "elem.") {
				kept = append(kept, keptHeap{k, ArrSort(SInt)}) // cells holding pointers / function values
				continue
			}
			if srt, ok := e.sortOfFieldKey(k); ok {
				kept = append(kept, keptHeap{k, ArrSort(srt)})
			} else {
				e.unsup(ce, "callbacks-keep %s: not a scalar struct field or a modelled map", k)
			}
		}
		for _, kh := range kept {
			e.heapGet(preCB, kh.key, kh.sort)
		}
		e.Assumptions["ASSUMED in "+fx.fi.Key+": function values called here do not modify "+strings.Join(fx.con.CallbackKeep, ", ")+" (callbacks-keep)"] = true
	}
	e.havocAll(st)
	for _, kh := range kept {
		st.heap[kh.key] = e.heapGet(preCB, kh.key, kh.sort)
	}
	fx.protectFrame(st, preCB)
	na := ts.Fresh("alloc", SInt)
	st.assume(ts.Ge(na, st.alloc))
	st.alloc = na
	var out []*Value
	for i := 0; i < sig.Results().Len(); i++ {
		r := e.havocValue(st, sig.Results().At(i).Type(), "cb.ret")
		fx.onRead(st, r, ce)
		out = append(out, r)
	}
	fx.afterCall(st, ce)
	return out
}

func (fx *fctx) callInterface(st *State, recv *Value, fn *types.Func, ce *ast.CallExpr) []*Value {
	e := fx.e
	ts := e.ts
	sig := fn.Type().(*types.Signature)
	fx.check(st, "nil", abbrev(e.exprStr(ce.Fun)), ts.Ne(recv.Tm, ts.App("any_nil", SAny)), ce, "method call on nil interface")
	args := fx.evalArgs(st, ce, nil, sig)
	if !pureIfaceMethod(fn.Name()) {
		fx.beforeCall(st, nil, args, ce)
		e.havocAll(st)
		na := ts.Fresh("alloc", SInt)
		st.assume(ts.Ge(na, st.alloc))
		st.alloc = na
	}
	e.Assumptions["interface method "+fn.Name()+" returns normally"] = true
	var out []*Value
	for i := 0; i < sig.Results().Len(); i++ {
		out = append(out, e.havocValue(st, sig.Results().At(i).Type(), fn.Name()+".ret"))
	}
	return out
}

// evalAtState evaluates a clause sub-expression in another state: identifiers that are clause parameters
// are re-bound to the value of the real variable of the same name in that state.
func (fx *fctx) evalAtState(os *State, x ast.Expr) *Value {
	info := fx.e.P.Info
	// collect clause-parameter identifiers used in x and rebind them by name
	names := map[string]*types.Var{}
	ast.Inspect(x, func(n ast.Node) bool {
		if id, ok := n.(*ast.Ident); ok {
			if v, ok := info.Uses[id].(*types.Var); ok && !fx.isGlobal(v) {
				names[id.Name] = v
			}
		}
		return true
	})
	for name, pv := range names {
		// find the real variable with this name bound in os
		for rv, val := range os.vars {
			if rv != pv && rv.Name() == name && rv.Pos().IsValid() && !strings.HasPrefix(rv.Name(), "$") {
				if fx.boxed[rv] {
					os.vars[pv] = fx.e.loadCell(os, "", val.Tm, rv.Type())
				} else {
					os.vars[pv] = val
				}
			}
		}
	}
	return fx.eval(os, x)
}

// implicitRecvNonNil: methods with pointer receivers require a non-nil receiver unless the contract says `nilrecv`.
func (e *Engine) implicitRecvNonNil(fi *FuncInfo, con *Contract) bool {
	if fi.Obj == nil {
		return false
	}
	sig := fi.Obj.Type().(*types.Signature)
	if sig.Recv() == nil {
		return false
	}
	if _, ok := sig.Recv().Type().Underlying().(*types.Pointer); !ok {
		return false
	}
	if con != nil && con.NilRecv {
		return false
	}
	return true
}

// callTable: a call through an entry of an immutable function table is a case split over the entries
// (the index is known to be in range from the preceding index check).
func (fx *fctx) callTable(st *State, tab *funcTable, sig *types.Signature, ce *ast.CallExpr) []*Value {
	e := fx.e
	ts := e.ts
	args := fx.evalArgs(st, ce, nil, sig)
	var outs []*State
	nres := sig.Results().Len()
	tmp := make([]*types.Var, nres)
	for i := range tmp {
		tmp[i] = types.NewVar(token.NoPos, nil, fmt.Sprintf("$tab%d", i), sig.Results().At(i).Type())
	}
	for i, fn := range tab.Entries {
		b := st.clone()
		b.branch(ts.Eq(tab.Idx, ts.Int(int64(i))))
		if b.dead {
			continue
		}
		fi := e.P.FuncByObj[fn]
		if fi == nil {
			e.unsup(ce, "table entry %s has no declaration", fn.Name())
		}
		fsig := fn.Type().(*types.Signature)
		var recv *Value
		a := args
		if fsig.Recv() != nil {
			// method expression: the first argument is the receiver
			recv = args[0]
			a = args[1:]
		}
		con := e.P.CF.Contracts[fi.Key]
		var res []*Value
		if con != nil && con.Inline {
			res = fx.inlineBody(b, fi.Decl.Type, fi.Decl.Body, fsig, fi.Decl.Recv, recv, a, ce)
		} else {
			res = fx.callContract(b, fi, con, recv, a, ce)
		}
		for j := 0; j < nres && j < len(res); j++ {
			b.vars[tmp[j]] = res[j]
		}
		outs = append(outs, b)
	}
	m := e.merge(outs)
	out := make([]*Value, nres)
	for j := 0; j < nres; j++ {
		out[j] = m.vars[tmp[j]]
		delete(m.vars, tmp[j])
		if out[j] == nil {
			out[j] = e.zeroValue(sig.Results().At(j).Type())
		}
	}
	*st = *m
	return out
}

// protectFrame: cells of protected regions keep their values across a call.
func (fx *fctx) protectFrame(st *State, pre *State) {
	e := fx.e
	ts := e.ts
	// `freshonly` heaps: callees write them only on objects they allocate, so every cell that existed before
	// the call keeps its value (justified by the frame:*-privacy obligations; host callbacks: assumed)
	for _, key := range e.P.CF.FreshOnly {
		keys := map[string]Sort{}
		for k, h := range pre.heap {
			keys[k] = h.Sort
		}
		for k, h := range st.heap {
			keys[k] = h.Sort
		}
		// heaps not touched yet in this frame are materialised from the field's declared type
		for _, ks := range e.keysOfField(key) {
			if _, ok := keys[ks.Key]; !ok {
				keys[ks.Key] = ks.Sort
			}
		}
		for _, k := range sortedKeys(keys) {
			if !matchKey(k, key) {
				continue
			}
			after := e.heapGet(st, k, keys[k])
			before := e.heapGet(pre, k, keys[k])
			if before == after {
				continue
			}
			a := ts.BoundVar("fa", SInt)
			st.assume(ts.Forall([]*Term{a}, ts.WithPatterns(ts.Implies(ts.Lt(a, pre.alloc), ts.Eq(ts.Select(after, a), ts.Select(before, a))), []*Term{ts.Select(after, a)})))
		}
	}
	for _, c := range fx.protCells {
		for _, k := range e.heapKeysOf(c.key, c.t) {
			before := e.heapGet(pre, k.Key, k.Sort)
			after := e.heapGet(st, k.Key, k.Sort)
			if before == after {
				continue
			}
			st.assume(ts.Eq(ts.Select(after, c.addr), ts.Select(before, c.addr)))
		}
	}
	for _, p := range fx.protected {
		for _, k := range e.heapKeysOf("", p.elemT) {
			if len(p.fields) > 0 {
				okF := false
				for _, f := range p.fields {
					if strings.HasSuffix(k.Key, "."+f) || strings.Contains(k.Key, "."+f+"#") {
						okF = true
					}
				}
				if !okF {
					continue
				}
			}
			before := e.heapGet(pre, k.Key, k.Sort)
			after := e.heapGet(st, k.Key, k.Sort)
			if before == after {
				continue
			}
			a := ts.BoundVar("pa", SInt)
			in := ts.And(ts.Le(p.ptr, a), ts.Lt(a, ts.Add(p.ptr, p.n)))
			st.assume(ts.Forall([]*Term{a}, ts.WithPatterns(ts.Implies(in, ts.Eq(ts.Select(after, a), ts.Select(before, a))), []*Term{ts.Select(after, a)})))
		}
	}
}

// keysOfField: heap keys (with sorts) of the field named "Struct.field".
func (e *Engine) keysOfField(key string) []struct {
	Key  string
	Sort Sort
} {
	i := strings.IndexByte(key, '.')
	if i <= 0 {
		return nil
	}
	obj := e.P.Pkg.Types.Scope().Lookup(key[:i])
	if obj == nil {
		return nil
	}
	sty, ok := obj.Type().Underlying().(*types.Struct)
	if !ok {
		return nil
	}
	for j := 0; j < sty.NumFields(); j++ {
		if sty.Field(j).Name() == key[i+1:] {
			return e.heapKeysOf(key, sty.Field(j).Type())
		}
	}
	return nil
}

// preCallHooks runs `ghost at precall N f:` hooks with the evaluated arguments bound to arg0, arg1, ...
func (fx *fctx) preCallHooks(st *State, ce *ast.CallExpr, args []*Value) {
	if fx.spec || fx.con == nil || len(fx.con.Hooks) == 0 {
		return
	}
	if ref, ok := fx.callIndex[ce]; ok {
		fx.runHooks(st, "precall", ref.n, ref.name, ce, args)
	}
}

// assumeElemsNonNil: bulk form of the element discipline (see nonnil-elems): a slice that is visible outside the
// frame that built it holds no nil element.
func (fx *fctx) assumeElemsNonNil(st *State, v *Value, elemT types.Type) {
	e := fx.e
	if fx.spec || v == nil || v.Sl == nil || !e.nonNilElem(elemT) || fx.isMade(v.Sl.Ptr) {
		return
	}
	ts := e.ts
	k := ts.BoundVar("ne", SInt)
	h := e.heapGet(st, e.elemKey(elemT), ArrSort(SInt))
	st.assume(ts.Forall([]*Term{k}, ts.Implies(ts.And(ts.Le(ts.Int(0), k), ts.Lt(k, v.Sl.Len)), ts.Ne(ts.Select(h, ts.Add(v.Sl.Ptr, k)), ts.Int(0)))))
}
