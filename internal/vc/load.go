package vc

import (
	"fmt"
	"go/ast"
	"go/token"
	"go/types"
	"os"
	"path/filepath"
	"regexp"
	"sort"
	"strings"

	"golang.org/x/tools/go/packages"
)

// RepoDir is the tree under verification.  Registered checks always use /repo; DSVC_REPO lets the seed tooling point
// dsvc at a scratch worktree so that stored seeds can be replayed while /repo is being edited.
var RepoDir = repoDir()

func repoDir() string {
	if d := os.Getenv("DSVC_REPO"); d != "" {
		return d
	}
	return "/repo"
}

const ContractsFileName = "verif_contracts.go"
const GenFileName = "zz_dsvc_gen.go"

type FuncInfo struct {
	Key   string
	Decl  *ast.FuncDecl
	Obj   *types.Func
	File  string
	Loops []ast.Stmt // for/range statements in source order (closures included)
}

type Program struct {
	Fset      *token.FileSet
	Pkg       *packages.Package
	Info      *types.Info
	Funcs     map[string]*FuncInfo
	FuncByObj map[*types.Func]*FuncInfo
	CF        *ContractFile
	GenFuncs  map[string]*ast.FuncDecl
	GenSrc    string
	LoadSecs  float64
}

func loadPkg(overlay map[string][]byte) (*packages.Package, error) {
	cfg := &packages.Config{
		Mode:       packages.NeedName | packages.NeedFiles | packages.NeedSyntax | packages.NeedTypes | packages.NeedTypesInfo | packages.NeedImports | packages.NeedDeps | packages.NeedCompiledGoFiles,
		Dir:        RepoDir,
		BuildFlags: []string{"-tags=verif"},
		Overlay:    overlay,
		Env:        append(os.Environ(), "GOFLAGS=-mod=mod", "GOPROXY=off", "GOSUMDB=off", "GOTOOLCHAIN=local"),
	}
	pkgs, err := packages.Load(cfg, ".")
	if err != nil {
		return nil, err
	}
	if len(pkgs) != 1 {
		return nil, fmt.Errorf("expected 1 package, got %d", len(pkgs))
	}
	p := pkgs[0]
	if len(p.Errors) > 0 {
		var msgs []string
		for _, e := range p.Errors {
			msgs = append(msgs, e.Error())
		}
		return nil, fmt.Errorf("package errors:\n%s", strings.Join(msgs, "\n"))
	}
	return p, nil
}

func FuncKey(fd *ast.FuncDecl) string {
	if fd.Recv == nil || len(fd.Recv.List) == 0 {
		return fd.Name.Name
	}
	t := fd.Recv.List[0].Type
	star := ""
	if s, ok := t.(*ast.StarExpr); ok {
		star = "*"
		t = s.X
	}
	name := ""
	switch x := t.(type) {
	case *ast.Ident:
		name = x.Name
	case *ast.IndexExpr:
		if id, ok := x.X.(*ast.Ident); ok {
			name = id.Name
		}
	}
	if star != "" {
		return "(*" + name + ")." + fd.Name.Name
	}
	return "(" + name + ")." + fd.Name.Name
}

func indexFuncs(p *packages.Package) (map[string]*FuncInfo, map[*types.Func]*FuncInfo) {
	m := map[string]*FuncInfo{}
	byObj := map[*types.Func]*FuncInfo{}
	for i, f := range p.Syntax {
		fname := filepath.Base(p.CompiledGoFiles[i])
		for _, d := range f.Decls {
			fd, ok := d.(*ast.FuncDecl)
			if !ok || fd.Body == nil {
				continue
			}
			fi := &FuncInfo{Key: FuncKey(fd), Decl: fd, File: fname}
			if o, ok := p.TypesInfo.Defs[fd.Name].(*types.Func); ok {
				fi.Obj = o
				byObj[o] = fi
			}
			ast.Inspect(fd.Body, func(n ast.Node) bool {
				switch n.(type) {
				case *ast.ForStmt, *ast.RangeStmt:
					fi.Loops = append(fi.Loops, n.(ast.Stmt))
				}
				return true
			})
			m[fi.Key] = fi
		}
	}
	return m, byObj
}

type importSet struct {
	self *types.Package
	used map[string]string // path -> name
}

func (is *importSet) qual(p *types.Package) string {
	if p == is.self {
		return ""
	}
	is.used[p.Path()] = p.Name()
	return p.Name()
}

// scopeVars lists variables visible at pos, innermost first, stopping at (and including) the function scope.
func scopeVars(info *types.Info, fd *ast.FuncDecl, pos token.Pos, pkgScope *types.Scope) []*types.Var {
	fscope := info.Scopes[fd.Type]
	if fscope == nil {
		return nil
	}
	inner := fscope.Innermost(pos)
	var out []*types.Var
	seen := map[string]bool{}
	for s := inner; s != nil && s != pkgScope; s = s.Parent() {
		names := s.Names()
		for _, n := range names {
			o := s.Lookup(n)
			v, ok := o.(*types.Var)
			if !ok || n == "_" {
				continue
			}
			if v.Pos() >= pos && s != fscope {
				continue
			}
			if seen[n] {
				continue
			}
			seen[n] = true
			out = append(out, v)
		}
		if s == fscope {
			break
		}
	}
	return out
}

func paramDecl(v *types.Var, is *importSet) string {
	return v.Name() + " " + types.TypeString(v.Type(), is.qual)
}

// LoadProgram loads /repo (tag verif), parses the contracts file, generates the synthetic clause
// functions and reloads with them in an overlay so that every clause is type-checked by go/types.
func LoadProgram() (*Program, error) {
	src, err := os.ReadFile(filepath.Join(RepoDir, ContractsFileName))
	if err != nil {
		return nil, fmt.Errorf("contracts file: %v", err)
	}
	cf := ParseContracts(string(src))
	if len(cf.Errors) > 0 {
		return nil, fmt.Errorf("contract syntax errors:\n%s", strings.Join(cf.Errors, "\n"))
	}
	p1, err := loadPkg(nil)
	if err != nil {
		return nil, err
	}
	funcs, _ := indexFuncs(p1)
	is := &importSet{self: p1.Types, used: map[string]string{}}
	var gen strings.Builder
	n := 0
	var genErrs []string
	emit := func(c *Clause, params []string, retType string, isStmt bool) {
		n++
		c.FnName = fmt.Sprintf("dsvc_c%d", n)
		text := c.Text
		if isStmt && strings.Contains(c.Text, "==>") {
			// implications inside ghostAssert(...) arguments
			if g, err := ClauseToGo(c.Text); err == nil {
				text = g
			} else {
				genErrs = append(genErrs, fmt.Sprintf("contracts:%d: %v", c.Line, err))
			}
		}
		if !isStmt {
			g, err := ClauseToGo(c.Text)
			if err != nil {
				genErrs = append(genErrs, fmt.Sprintf("contracts:%d: %v", c.Line, err))
				g = "true"
			}
			text = g
		}
		c.GoText = text
		fmt.Fprintf(&gen, "//line %s:%d\n", ContractsFileName, c.Line)
		if isStmt {
			fmt.Fprintf(&gen, "func %s(%s) { %s }\n", c.FnName, strings.Join(params, ", "), text)
		} else {
			fmt.Fprintf(&gen, "func %s(%s) %s { return %s }\n", c.FnName, strings.Join(params, ", "), retType, text)
		}
	}
	keys := append([]string{}, cf.Order...)
	for _, key := range keys {
		c := cf.Contracts[key]
		fi := funcs[key]
		if fi == nil {
			genErrs = append(genErrs, fmt.Sprintf("contracts:%d: no function %q in package", c.Line, key))
			continue
		}
		info := p1.TypesInfo
		sig := fi.Obj.Type().(*types.Signature)
		var base []string
		seen := map[string]bool{}
		add := func(v *types.Var) {
			if v.Name() == "" || v.Name() == "_" || seen[v.Name()] {
				return
			}
			seen[v.Name()] = true
			base = append(base, paramDecl(v, is))
		}
		if sig.Recv() != nil {
			add(sig.Recv())
		}
		for i := 0; i < sig.Params().Len(); i++ {
			v := sig.Params().At(i)
			if sig.Variadic() && i == sig.Params().Len()-1 {
				// variadic param is a slice inside the function
				if v.Name() != "" && v.Name() != "_" && !seen[v.Name()] {
					seen[v.Name()] = true
					base = append(base, v.Name()+" "+types.TypeString(v.Type(), is.qual))
				}
				continue
			}
			add(v)
		}
		var ghosts []string
		for _, gv := range c.GhostVars {
			ghosts = append(ghosts, gv.Name+" "+gv.Type)
			seen[gv.Name] = true
		}
		var results []string
		for i := 0; i < sig.Results().Len(); i++ {
			v := sig.Results().At(i)
			ts := types.TypeString(v.Type(), is.qual)
			if sig.Results().Len() == 1 {
				results = append(results, "result "+ts)
			}
			results = append(results, fmt.Sprintf("result%d %s", i, ts))
			if v.Name() != "" && v.Name() != "_" && !seen[v.Name()] {
				seen[v.Name()] = true
				results = append(results, v.Name()+" "+ts)
			}
		}
		for _, cl := range c.Requires {
			emit(cl, append(append([]string{}, base...), ghosts...), "bool", false)
		}
		// function-scope locals may be mentioned in postconditions (they are bound at each return;
		// a local not yet declared at an early return is arbitrary there)
		var endLocals []string
		for _, v := range scopeVars(info, fi.Decl, fi.Decl.Body.Rbrace, p1.Types.Scope()) {
			if fscope := info.Scopes[fi.Decl.Type]; fscope == nil || v.Parent() != fscope {
				continue
			}
			if seen[v.Name()] {
				continue
			}
			endLocals = append(endLocals, paramDecl(v, is))
		}
		for _, cl := range append(append([]*Clause{}, c.Ensures...), c.Goals...) {
			ps := append(append(append([]string{}, base...), ghosts...), results...)
			rs := map[string]bool{}
			for _, r := range ps {
				rs[strings.Fields(r)[0]] = true
			}
			for _, l := range endLocals {
				if !rs[strings.Fields(l)[0]] {
					ps = append(ps, l)
				}
			}
			emit(cl, ps, "bool", false)
		}
		for _, gv := range c.GhostVars {
			emit(gv.Init, base, gv.Type, false)
		}
		for _, ex := range c.Exempts {
			emit(ex.Clause, append(append(append([]string{}, base...), ghosts...), results...), "bool", false)
		}
		localParams := func(pos token.Pos) []string {
			vars := scopeVars(info, fi.Decl, pos, p1.Types.Scope())
			var out []string
			s2 := map[string]bool{}
			for _, gv := range c.GhostVars {
				s2[gv.Name] = true
			}
			for _, v := range vars {
				if s2[v.Name()] {
					continue
				}
				s2[v.Name()] = true
				out = append(out, paramDecl(v, is))
			}
			return append(out, ghosts...)
		}
		loopNs := []int{}
		for k := range c.Loops {
			loopNs = append(loopNs, k)
		}
		sort.Ints(loopNs)
		for _, k := range loopNs {
			lc := c.Loops[k]
			if k < 1 || k > len(fi.Loops) {
				genErrs = append(genErrs, fmt.Sprintf("contracts:%d: %s has no loop %d", c.Line, key, k))
				continue
			}
			var pos token.Pos
			switch l := fi.Loops[k-1].(type) {
			case *ast.ForStmt:
				pos = l.Body.Lbrace
			case *ast.RangeStmt:
				pos = l.Body.Lbrace
			}
			ps := localParams(pos)
			if _, isRange := fi.Loops[k-1].(*ast.RangeStmt); isRange {
				ps = append(ps, "rangeIdx int") // the hidden index of the range loop
			}
			for _, cl := range lc.Invariants {
				emit(cl, ps, "bool", false)
			}
			if lc.Decreases != nil {
				emit(lc.Decreases, ps, "int", false)
			}
		}
		for _, name := range sortedKeys(c.Closures) {
			cc := c.Closures[name]
			lit := findClosureLit(info, fi.Decl, name)
			if lit == nil {
				genErrs = append(genErrs, fmt.Sprintf("contracts:%d: %s has no closure %s", c.Line, key, name))
				continue
			}
			ps := localParams(lit.Body.Lbrace + 1)
			for _, cl := range cc.Requires {
				emit(cl, ps, "bool", false)
			}
			var res []string
			if tsig, ok := info.TypeOf(lit).(*types.Signature); ok {
				for i := 0; i < tsig.Results().Len(); i++ {
					tsr := types.TypeString(tsig.Results().At(i).Type(), is.qual)
					if tsig.Results().Len() == 1 {
						res = append(res, "result "+tsr)
					}
					res = append(res, fmt.Sprintf("result%d %s", i, tsr))
				}
			}
			for _, cl := range cc.Ensures {
				emit(cl, append(append([]string{}, ps...), res...), "bool", false)
			}
		}
		for _, h := range c.Hooks {
			switch h.Where {
			case "entry":
				emit(h.Stmts, append(append([]string{}, base...), ghosts...), "", true)
			case "loopexit":
				if h.N < 1 || h.N > len(fi.Loops) {
					genErrs = append(genErrs, fmt.Sprintf("contracts:%d: %s has no loop %d", h.Stmts.Line, key, h.N))
					continue
				}
				emit(h.Stmts, localParams(fi.Loops[h.N-1].End()), "", true)
			case "loopbegin", "loopend":
				if h.N < 1 || h.N > len(fi.Loops) {
					genErrs = append(genErrs, fmt.Sprintf("contracts:%d: %s has no loop %d", h.Stmts.Line, key, h.N))
					continue
				}
				var pos token.Pos
				switch l := fi.Loops[h.N-1].(type) {
				case *ast.ForStmt:
					pos = l.Body.Lbrace + 1
					if h.Where == "loopend" {
						pos = l.Body.Rbrace
					}
				case *ast.RangeStmt:
					pos = l.Body.Lbrace + 1
					if h.Where == "loopend" {
						pos = l.Body.Rbrace
					}
				}
				emit(h.Stmts, localParams(pos), "", true)
			case "precall":
				call := findNthCall(info, fi.Decl, h.Callee, h.N)
				if call == nil {
					genErrs = append(genErrs, fmt.Sprintf("contracts:%d: %s has no call %d of %s", h.Stmts.Line, key, h.N, h.Callee))
					continue
				}
				ps := localParams(call.Pos())
				for i, a := range call.Args {
					if tv, ok := info.Types[a]; ok && tv.Type != nil {
						at := tv.Type
						if b, ok := at.(*types.Basic); ok && b.Info()&types.IsUntyped != 0 {
							at = types.Default(at)
						}
						if b, ok := at.(*types.Basic); ok && b.Kind() == types.UntypedNil {
							continue
						}
						ps = append(ps, fmt.Sprintf("arg%d %s", i, types.TypeString(at, is.qual)))
					}
				}
				emit(h.Stmts, ps, "", true)
			case "call":
				call := findNthCall(info, fi.Decl, h.Callee, h.N)
				if call == nil {
					genErrs = append(genErrs, fmt.Sprintf("contracts:%d: %s has no call %d of %s", h.Stmts.Line, key, h.N, h.Callee))
					continue
				}
				ps := localParams(call.Pos())
				if tv, ok := info.Types[call]; ok {
					switch t := tv.Type.(type) {
					case *types.Tuple:
						for i := 0; i < t.Len(); i++ {
							ps = append(ps, fmt.Sprintf("ret%d %s", i, types.TypeString(t.At(i).Type(), is.qual)))
						}
					default:
						if tv.Type != nil {
							ps = append(ps, "ret "+types.TypeString(tv.Type, is.qual))
						}
					}
				}
				emit(h.Stmts, ps, "", true)
			}
		}
	}
	for _, ti := range cf.TypeInvs {
		emit(ti.Clause, []string{ti.Var + " " + ti.Type}, "bool", false)
	}
	for _, gi := range cf.GlobalInvs {
		emit(gi.Clause, nil, "bool", false)
	}
	for _, mv := range cf.MapVals {
		emit(mv.Clause, []string{mv.Var + " " + mv.Type}, "bool", false)
	}
	if len(genErrs) > 0 {
		return nil, fmt.Errorf("contract resolution errors:\n%s", strings.Join(genErrs, "\n"))
	}
	// imports named in clause texts (e.g. math.MaxInt64): take them from the contracts file's own imports
	for i, f := range p1.Syntax {
		if filepath.Base(p1.CompiledGoFiles[i]) != ContractsFileName {
			continue
		}
		for _, im := range f.Imports {
			pth := strings.Trim(im.Path.Value, "\"")
			name := filepath.Base(pth)
			if im.Name != nil {
				name = im.Name.Name
			} else if ip := p1.Imports[pth]; ip != nil {
				name = ip.Name
			}
			if regexp.MustCompile(`\b` + regexp.QuoteMeta(name) + `\s*\.`).MatchString(gen.String()) {
				is.used[pth] = name
			}
		}
	}
	var hdr strings.Builder
	hdr.WriteString("//go:build verif\n\npackage " + p1.Types.Name() + "\n\n")
	var paths []string
	for pth := range is.used {
		paths = append(paths, pth)
	}
	sort.Strings(paths)
	if len(paths) > 0 {
		hdr.WriteString("import (\n")
		for _, pth := range paths {
			fmt.Fprintf(&hdr, "\t%s %q\n", is.used[pth], pth)
		}
		hdr.WriteString(")\n\n")
	}
	genSrc := hdr.String() + gen.String()
	overlay := map[string][]byte{filepath.Join(RepoDir, GenFileName): []byte(genSrc)}
	p2, err := loadPkg(overlay)
	if err != nil {
		return nil, fmt.Errorf("type-checking contracts failed: %v", err)
	}
	prog := &Program{Fset: p2.Fset, Pkg: p2, Info: p2.TypesInfo, CF: cf, GenFuncs: map[string]*ast.FuncDecl{}, GenSrc: genSrc}
	prog.Funcs, prog.FuncByObj = indexFuncs(p2)
	for k, fi := range prog.Funcs {
		if strings.HasPrefix(k, "dsvc_c") {
			prog.GenFuncs[k] = fi.Decl
		}
	}
	bind := func(c *Clause) {
		if c != nil && c.FnName != "" {
			c.Fn = prog.GenFuncs[c.FnName]
		}
	}
	for _, c := range cf.Contracts {
		for _, cl := range c.Requires {
			bind(cl)
		}
		for _, cl := range c.Ensures {
			bind(cl)
		}
		for _, cl := range c.Goals {
			bind(cl)
		}
		for _, ex := range c.Exempts {
			bind(ex.Clause)
		}
		for _, gv := range c.GhostVars {
			bind(gv.Init)
		}
		for _, lc := range c.Loops {
			for _, cl := range lc.Invariants {
				bind(cl)
			}
			bind(lc.Decreases)
		}
		for _, h := range c.Hooks {
			bind(h.Stmts)
		}
		for _, cc := range c.Closures {
			for _, cl := range cc.Requires {
				bind(cl)
			}
			for _, cl := range cc.Ensures {
				bind(cl)
			}
		}
	}
	for _, ti := range cf.TypeInvs {
		bind(ti.Clause)
	}
	for _, gi := range cf.GlobalInvs {
		bind(gi.Clause)
	}
	for _, mv := range cf.MapVals {
		bind(mv.Clause)
	}
	return prog, nil
}

// findNthCall returns the n-th (1-based) call of callee (by function or method name) inside fd, in source order.
func findNthCall(info *types.Info, fd *ast.FuncDecl, callee string, n int) *ast.CallExpr {
	var found *ast.CallExpr
	k := 0
	ast.Inspect(fd.Body, func(nd ast.Node) bool {
		if found != nil {
			return false
		}
		ce, ok := nd.(*ast.CallExpr)
		if !ok {
			return true
		}
		if calleeName(ce) == callee {
			k++
			if k == n {
				found = ce
			}
		}
		return true
	})
	return found
}

func calleeName(ce *ast.CallExpr) string {
	switch f := ce.Fun.(type) {
	case *ast.Ident:
		return f.Name
	case *ast.SelectorExpr:
		if x, ok := f.X.(*ast.Ident); ok {
			return x.Name + "." + f.Sel.Name
		}
		return f.Sel.Name
	}
	return ""
}

// findClosureLit: the function literal assigned (once) to the local named name inside fd.
func findClosureLit(info *types.Info, fd *ast.FuncDecl, name string) *ast.FuncLit {
	var found *ast.FuncLit
	ast.Inspect(fd.Body, func(n ast.Node) bool {
		as, ok := n.(*ast.AssignStmt)
		if !ok {
			return true
		}
		for i, l := range as.Lhs {
			if id, ok := l.(*ast.Ident); ok && id.Name == name && i < len(as.Rhs) {
				if lit, ok := as.Rhs[i].(*ast.FuncLit); ok && found == nil {
					found = lit
				}
			}
		}
		return true
	})
	return found
}
