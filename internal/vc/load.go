package vc

import (
	"fmt"
	"go/ast"
	"go/token"
	"go/types"
	"os"
	"path/filepath"
	"regexp"
	"sort"
	"strconv"
	"strings"

	"golang.org/x/tools/go/packages"
)

// RepoDir is the tree under verification.  Registered checks always use /repo; DSVC_REPO lets the seed tooling point
// dsvc at a scratch worktree so that stored seeds can be replayed while /repo is being edited.
var RepoDir = repoDir()

func repoDir() string {
	if d := os.Getenv("DSVC_REPO"); d != "" {
		return d
	}
	return "/repo"
}

const ContractsFileName = "verif_contracts.go"
const GenFileName = "zz_dsvc_gen.go"

type FuncInfo struct {
	Key   string
	Decl  *ast.FuncDecl
	Obj   *types.Func
	File  string
	Loops []ast.Stmt // for/range statements in source order (closures included)
}

type Program struct {
	Fset         *token.FileSet
	Pkg          *packages.Package
	Info         *types.Info
	Funcs        map[string]*FuncInfo
	FuncByObj    map[*types.Func]*FuncInfo
	CF           *ContractFile
	GenFuncs     map[string]*ast.FuncDecl
	GenSrc       string
	LoadSecs     float64
	Renamed      map[string]map[string]string // function -> old local name -> new local name (pure renamings repaired at load)
	Dropped      map[string]string            // function -> why its contract was dropped for this run (does not resolve)
	DroppedProps map[string][]string
}

func loadPkg(overlay map[string][]byte) (*packages.Package, error) {
	cfg := &packages.Config{
		Mode:       packages.NeedName | packages.NeedFiles | packages.NeedSyntax | packages.NeedTypes | packages.NeedTypesInfo | packages.NeedImports | packages.NeedDeps | packages.NeedCompiledGoFiles,
		Dir:        RepoDir,
		BuildFlags: []string{"-tags=verif"},
		Overlay:    overlay,
		Env:        append(os.Environ(), "GOFLAGS=-mod=mod", "GOPROXY=off", "GOSUMDB=off", "GOTOOLCHAIN=local"),
	}
	pkgs, err := packages.Load(cfg, ".")
	if err != nil {
		return nil, err
	}
	if len(pkgs) != 1 {
		return nil, fmt.Errorf("expected 1 package, got %d", len(pkgs))
	}
	p := pkgs[0]
	if len(p.Errors) > 0 {
		var msgs []string
		for _, e := range p.Errors {
			msgs = append(msgs, e.Error())
		}
		return nil, fmt.Errorf("package errors:\n%s", strings.Join(msgs, "\n"))
	}
	return p, nil
}

func FuncKey(fd *ast.FuncDecl) string {
	if fd.Recv == nil || len(fd.Recv.List) == 0 {
		return fd.Name.Name
	}
	t := fd.Recv.List[0].Type
	star := ""
	if s, ok := t.(*ast.StarExpr); ok {
		star = "*"
		t = s.X
	}
	name := ""
	switch x := t.(type) {
	case *ast.Ident:
		name = x.Name
	case *ast.IndexExpr:
		if id, ok := x.X.(*ast.Ident); ok {
			name = id.Name
		}
	}
	if star != "" {
		return "(*" + name + ")." + fd.Name.Name
	}
	return "(" + name + ")." + fd.Name.Name
}

func indexFuncs(p *packages.Package) (map[string]*FuncInfo, map[*types.Func]*FuncInfo) {
	m := map[string]*FuncInfo{}
	byObj := map[*types.Func]*FuncInfo{}
	for i, f := range p.Syntax {
		fname := filepath.Base(p.CompiledGoFiles[i])
		for _, d := range f.Decls {
			fd, ok := d.(*ast.FuncDecl)
			if !ok || fd.Body == nil {
				continue
			}
			fi := &FuncInfo{Key: FuncKey(fd), Decl: fd, File: fname}
			if o, ok := p.TypesInfo.Defs[fd.Name].(*types.Func); ok {
				fi.Obj = o
				byObj[o] = fi
			}
			ast.Inspect(fd.Body, func(n ast.Node) bool {
				switch n.(type) {
				case *ast.ForStmt, *ast.RangeStmt:
					fi.Loops = append(fi.Loops, n.(ast.Stmt))
				}
				return true
			})
			m[fi.Key] = fi
		}
	}
	return m, byObj
}

type importSet struct {
	self *types.Package
	used map[string]string // path -> name
}

func (is *importSet) qual(p *types.Package) string {
	if p == is.self {
		return ""
	}
	is.used[p.Path()] = p.Name()
	return p.Name()
}

// scopeVars lists variables visible at pos, innermost first, stopping at (and including) the function scope.
func scopeVars(info *types.Info, fd *ast.FuncDecl, pos token.Pos, pkgScope *types.Scope) []*types.Var {
	fscope := info.Scopes[fd.Type]
	if fscope == nil {
		return nil
	}
	inner := fscope.Innermost(pos)
	var out []*types.Var
	seen := map[string]bool{}
	for s := inner; s != nil && s != pkgScope; s = s.Parent() {
		names := s.Names()
		for _, n := range names {
			o := s.Lookup(n)
			v, ok := o.(*types.Var)
			if !ok || n == "_" {
				continue
			}
			if v.Pos() >= pos && s != fscope {
				continue
			}
			if seen[n] {
				continue
			}
			seen[n] = true
			out = append(out, v)
		}
		if s == fscope {
			break
		}
	}
	return out
}

func paramDecl(v *types.Var, is *importSet) string {
	return v.Name() + " " + types.TypeString(v.Type(), is.qual)
}

// LoadProgram loads /repo (tag verif), parses the contracts file, generates the synthetic clause
// functions and reloads with them in an overlay so that every clause is type-checked by go/types.
func LoadProgram() (*Program, error) {
	prog, err := loadProgramAttempt(nil, nil)
	if err == nil {
		return prog, nil
	}
	// The contracts do not resolve against the current tree.  Two repairs are tried before giving up, so that an edit
	// to ONE function neither raises an alarm for a pure renaming nor takes every other function's proof down with it:
	//  1. renamed locals: if the function's variables (receiver, parameters, results, locals in declaration order) have
	//     the same number and types as when the ledger was written, names that changed are substituted in its clauses;
	//  2. what still does not resolve is dropped for this run, contract by contract, and reported as the violation
	//     `contracts-resolve:<function>` for that function's properties only.
	first := err
	keys := contractsInError(err)
	if len(keys) == 0 {
		return nil, first
	}
	renames := map[string]map[string]string{}
	if p1, e1 := loadPkg(nil); e1 == nil {
		funcs, _ := indexFuncs(p1)
		was := loadLock()[localsKey]
		for _, k := range keys {
			if fi := funcs[k]; fi != nil {
				if m := renameMap(was, k, localList(p1.TypesInfo, fi)); len(m) > 0 {
					renames[k] = m
				}
			}
		}
	}
	if len(renames) > 0 {
		if prog, err = loadProgramAttempt(renames, nil); err == nil {
			prog.Renamed = renames
			return prog, nil
		}
		keys = contractsInError(err)
	}
	dropped := map[string]string{}
	for round := 0; round < 4 && len(keys) > 0; round++ {
		for _, k := range keys {
			if _, dup := dropped[k]; !dup {
				dropped[k] = err.Error()
			}
		}
		prog, err = loadProgramAttempt(renames, dropped)
		if err == nil {
			prog.Renamed = renames
			prog.Dropped = dropped
			prog.DroppedProps = map[string][]string{}
			if src, e := os.ReadFile(filepath.Join(RepoDir, ContractsFileName)); e == nil {
				cf0 := ParseContracts(string(src))
				for k := range dropped {
					if c := cf0.Contracts[k]; c != nil {
						prog.DroppedProps[k] = c.Props
					}
				}
			}
			return prog, nil
		}
		keys = contractsInError(err)
	}
	return nil, first
}

const localsKey = "~locals"

// localList: the variables of a function in declaration order as "name:type" (receiver, parameters, results, locals).
func localList(info *types.Info, fi *FuncInfo) []string {
	var out []string
	ast.Inspect(fi.Decl, func(n ast.Node) bool {
		if _, isLit := n.(*ast.FuncLit); isLit {
			return true
		}
		id, ok := n.(*ast.Ident)
		if !ok {
			return true
		}
		if v, ok := info.Defs[id].(*types.Var); ok && !v.IsField() && v.Name() != "_" {
			out = append(out, v.Name()+":"+types.TypeString(v.Type(), func(p *types.Package) string { return p.Name() }))
		}
		return true
	})
	return out
}

// renameMap aligns the ledger's variable list of function key with the current one; it answers only when both have the
// same length and the same types position by position (a pure renaming).
func renameMap(was []string, key string, now []string) map[string]string {
	var old []string
	for _, l := range was {
		if f := strings.SplitN(l, "\t", 2); len(f) == 2 && f[0] == key {
			old = strings.Split(f[1], ",")
		}
	}
	if len(old) == 0 || len(now) == 0 {
		return nil
	}
	typ := func(s string) string {
		if k := strings.Index(s, ":"); k >= 0 {
			return s[k+1:]
		}
		return ""
	}
	nam := func(s string) string {
		if k := strings.Index(s, ":"); k >= 0 {
			return s[:k]
		}
		return s
	}
	// longest common subsequence on exact "name:type" entries anchors the two lists; between two anchors the unmatched
	// old and new variables are paired in order when their types agree (a renaming); variables that were added or
	// removed stay unpaired
	n, m := len(old), len(now)
	lcs := make([][]int, n+1)
	for i := range lcs {
		lcs[i] = make([]int, m+1)
	}
	for i := n - 1; i >= 0; i-- {
		for j := m - 1; j >= 0; j-- {
			if old[i] == now[j] {
				lcs[i][j] = lcs[i+1][j+1] + 1
			} else if lcs[i+1][j] >= lcs[i][j+1] {
				lcs[i][j] = lcs[i+1][j]
			} else {
				lcs[i][j] = lcs[i][j+1]
			}
		}
	}
	out := map[string]string{}
	var gapOld, gapNew []string
	flush := func() {
		j := 0
		for _, o := range gapOld {
			for j < len(gapNew) && typ(gapNew[j]) != typ(o) {
				j++
			}
			if j < len(gapNew) {
				if prev, dup := out[nam(o)]; !dup || prev == nam(gapNew[j]) {
					out[nam(o)] = nam(gapNew[j])
				}
				j++
			}
		}
		gapOld, gapNew = nil, nil
	}
	i, j := 0, 0
	for i < n && j < m {
		switch {
		case old[i] == now[j]:
			flush()
			i++
			j++
		case lcs[i+1][j] >= lcs[i][j+1]:
			gapOld = append(gapOld, old[i])
			i++
		default:
			gapNew = append(gapNew, now[j])
			j++
		}
	}
	gapOld = append(gapOld, old[i:]...)
	gapNew = append(gapNew, now[j:]...)
	flush()
	// a name that still exists unchanged elsewhere must not be renamed away from it
	still := map[string]bool{}
	for _, s := range now {
		still[nam(s)] = true
	}
	for o := range out {
		if still[o] {
			delete(out, o)
		}
	}
	return out
}

var errLineRe = regexp.MustCompile(`(?:verif_contracts\.go|contracts):(\d+)`)

// contractsInError: the contracts (function keys) the lines named in a resolution error belong to.
func contractsInError(err error) []string {
	src, e := os.ReadFile(filepath.Join(RepoDir, ContractsFileName))
	if e != nil {
		return nil
	}
	cf := ParseContracts(string(src))
	// a line belongs to the last `func` block that starts at or before it
	type start struct {
		line int
		key  string
	}
	var starts []start
	for k, c := range cf.Contracts {
		starts = append(starts, start{c.Line, k})
	}
	sort.Slice(starts, func(i, j int) bool { return starts[i].line < starts[j].line })
	set := map[string]bool{}
	for _, m := range errLineRe.FindAllStringSubmatch(err.Error(), -1) {
		ln, _ := strconv.Atoi(m[1])
		key := ""
		for _, st := range starts {
			if st.line <= ln {
				key = st.key
			}
		}
		if key != "" {
			set[key] = true
		}
	}
	var out []string
	for k := range set {
		out = append(out, k)
	}
	sort.Strings(out)
	return out
}

// renameIdents substitutes identifiers in a clause text (selectors `x.old` are left alone).
func renameIdents(text string, m map[string]string) string {
	if len(m) == 0 {
		return text
	}
	toks, err := scanToks(text)
	if err != nil {
		return text
	}
	for i := range toks {
		if toks[i].t == token.IDENT {
			if nn, ok := m[toks[i].lit]; ok && (i == 0 || toks[i-1].t != token.PERIOD) {
				toks[i].lit = nn
			}
		}
	}
	return joinToks(toks)
}

func loadProgramAttempt(renames map[string]map[string]string, dropped map[string]string) (*Program, error) {
	src, err := os.ReadFile(filepath.Join(RepoDir, ContractsFileName))
	if err != nil {
		return nil, fmt.Errorf("contracts file: %v", err)
	}
	cf := ParseContracts(string(src))
	if len(cf.Errors) > 0 {
		return nil, fmt.Errorf("contract syntax errors:\n%s", strings.Join(cf.Errors, "\n"))
	}
	for k := range dropped {
		if _, ok := cf.Contracts[k]; ok {
			delete(cf.Contracts, k)
			var order []string
			for _, o := range cf.Order {
				if o != k {
					order = append(order, o)
				}
			}
			cf.Order = order
		}
	}
	for k, m := range renames {
		if c := cf.Contracts[k]; c != nil {
			c.renameIdents(m)
		}
	}
	p1, err := loadPkg(nil)
	if err != nil {
		return nil, err
	}
	funcs, _ := indexFuncs(p1)
	is := &importSet{self: p1.Types, used: map[string]string{}}
	var gen strings.Builder
	n := 0
	var genErrs []string
	emit := func(c *Clause, params []string, retType string, isStmt bool) {
		n++
		c.FnName = fmt.Sprintf("dsvc_c%d", n)
		text := c.Text
		if isStmt && strings.Contains(c.Text, "==>") {
			// implications inside ghostAssert(...) arguments
			if g, err := ClauseToGo(c.Text); err == nil {
				text = g
			} else {
				genErrs = append(genErrs, fmt.Sprintf("contracts:%d: %v", c.Line, err))
			}
		}
		if !isStmt {
			g, err := ClauseToGo(c.Text)
			if err != nil {
				genErrs = append(genErrs, fmt.Sprintf("contracts:%d: %v", c.Line, err))
				g = "true"
			}
			text = g
		}
		c.GoText = text
		fmt.Fprintf(&gen, "//line %s:%d\n", ContractsFileName, c.Line)
		if isStmt {
			fmt.Fprintf(&gen, "func %s(%s) { %s }\n", c.FnName, strings.Join(params, ", "), text)
		} else {
			fmt.Fprintf(&gen, "func %s(%s) %s { return %s }\n", c.FnName, strings.Join(params, ", "), retType, text)
		}
	}
	keys := append([]string{}, cf.Order...)
	for _, key := range keys {
		c := cf.Contracts[key]
		fi := funcs[key]
		if fi == nil {
			genErrs = append(genErrs, fmt.Sprintf("contracts:%d: no function %q in package", c.Line, key))
			continue
		}
		info := p1.TypesInfo
		sig := fi.Obj.Type().(*types.Signature)
		var base []string
		seen := map[string]bool{}
		add := func(v *types.Var) {
			if v.Name() == "" || v.Name() == "_" || seen[v.Name()] {
				return
			}
			seen[v.Name()] = true
			base = append(base, paramDecl(v, is))
		}
		if sig.Recv() != nil {
			add(sig.Recv())
		}
		for i := 0; i < sig.Params().Len(); i++ {
			v := sig.Params().At(i)
			if sig.Variadic() && i == sig.Params().Len()-1 {
				// variadic param is a slice inside the function
				if v.Name() != "" && v.Name() != "_" && !seen[v.Name()] {
					seen[v.Name()] = true
					base = append(base, v.Name()+" "+types.TypeString(v.Type(), is.qual))
				}
				continue
			}
			add(v)
		}
		var ghosts []string
		for _, gv := range c.GhostVars {
			ghosts = append(ghosts, gv.Name+" "+gv.Type)
			seen[gv.Name] = true
		}
		var results []string
		for i := 0; i < sig.Results().Len(); i++ {
			v := sig.Results().At(i)
			ts := types.TypeString(v.Type(), is.qual)
			if sig.Results().Len() == 1 {
				results = append(results, "result "+ts)
			}
			results = append(results, fmt.Sprintf("result%d %s", i, ts))
			if v.Name() != "" && v.Name() != "_" && !seen[v.Name()] {
				seen[v.Name()] = true
				results = append(results, v.Name()+" "+ts)
			}
		}
		for _, cl := range c.Requires {
			emit(cl, append(append([]string{}, base...), ghosts...), "bool", false)
		}
		// function-scope locals may be mentioned in postconditions (they are bound at each return;
		// a local not yet declared at an early return is arbitrary there)
		var endLocals []string
		for _, v := range scopeVars(info, fi.Decl, fi.Decl.Body.Rbrace, p1.Types.Scope()) {
			if fscope := info.Scopes[fi.Decl.Type]; fscope == nil || v.Parent() != fscope {
				continue
			}
			if seen[v.Name()] {
				continue
			}
			endLocals = append(endLocals, paramDecl(v, is))
		}
		for _, cl := range append(append([]*Clause{}, c.Ensures...), c.Goals...) {
			ps := append(append(append([]string{}, base...), ghosts...), results...)
			rs := map[string]bool{}
			for _, r := range ps {
				rs[strings.Fields(r)[0]] = true
			}
			for _, l := range endLocals {
				if !rs[strings.Fields(l)[0]] {
					ps = append(ps, l)
				}
			}
			emit(cl, ps, "bool", false)
		}
		for _, gv := range c.GhostVars {
			emit(gv.Init, base, gv.Type, false)
		}
		for _, ex := range c.Exempts {
			emit(ex.Clause, append(append(append([]string{}, base...), ghosts...), results...), "bool", false)
		}
		localParams := func(pos token.Pos) []string {
			vars := scopeVars(info, fi.Decl, pos, p1.Types.Scope())
			var out []string
			s2 := map[string]bool{}
			for _, gv := range c.GhostVars {
				s2[gv.Name] = true
			}
			for _, v := range vars {
				if s2[v.Name()] {
					continue
				}
				s2[v.Name()] = true
				out = append(out, paramDecl(v, is))
			}
			return append(out, ghosts...)
		}
		loopNs := []int{}
		for k := range c.Loops {
			loopNs = append(loopNs, k)
		}
		sort.Ints(loopNs)
		for _, k := range loopNs {
			lc := c.Loops[k]
			if k < 1 || k > len(fi.Loops) {
				genErrs = append(genErrs, fmt.Sprintf("contracts:%d: %s has no loop %d", c.Line, key, k))
				continue
			}
			var pos token.Pos
			switch l := fi.Loops[k-1].(type) {
			case *ast.ForStmt:
				pos = l.Body.Lbrace
			case *ast.RangeStmt:
				pos = l.Body.Lbrace
			}
			ps := localParams(pos)
			if _, isRange := fi.Loops[k-1].(*ast.RangeStmt); isRange {
				ps = append(ps, "rangeIdx int") // the hidden index of the range loop
			}
			for _, cl := range lc.Invariants {
				emit(cl, ps, "bool", false)
			}
			if lc.Decreases != nil {
				emit(lc.Decreases, ps, "int", false)
			}
		}
		for _, name := range sortedKeys(c.Closures) {
			cc := c.Closures[name]
			lit := findClosureLit(info, fi.Decl, name)
			if lit == nil {
				genErrs = append(genErrs, fmt.Sprintf("contracts:%d: %s has no closure %s", c.Line, key, name))
				continue
			}
			ps := localParams(lit.Body.Lbrace + 1)
			for _, cl := range cc.Requires {
				emit(cl, ps, "bool", false)
			}
			var res []string
			if tsig, ok := info.TypeOf(lit).(*types.Signature); ok {
				for i := 0; i < tsig.Results().Len(); i++ {
					tsr := types.TypeString(tsig.Results().At(i).Type(), is.qual)
					if tsig.Results().Len() == 1 {
						res = append(res, "result "+tsr)
					}
					res = append(res, fmt.Sprintf("result%d %s", i, tsr))
				}
			}
			for _, cl := range cc.Ensures {
				emit(cl, append(append([]string{}, ps...), res...), "bool", false)
			}
		}
		for _, h := range c.Hooks {
			switch h.Where {
			case "entry":
				emit(h.Stmts, append(append([]string{}, base...), ghosts...), "", true)
			case "loopexit":
				if h.N < 1 || h.N > len(fi.Loops) {
					genErrs = append(genErrs, fmt.Sprintf("contracts:%d: %s has no loop %d", h.Stmts.Line, key, h.N))
					continue
				}
				emit(h.Stmts, localParams(fi.Loops[h.N-1].End()), "", true)
			case "loopbegin", "loopend":
				if h.N < 1 || h.N > len(fi.Loops) {
					genErrs = append(genErrs, fmt.Sprintf("contracts:%d: %s has no loop %d", h.Stmts.Line, key, h.N))
					continue
				}
				var pos token.Pos
				switch l := fi.Loops[h.N-1].(type) {
				case *ast.ForStmt:
					pos = l.Body.Lbrace + 1
					if h.Where == "loopend" {
						pos = l.Body.Rbrace
					}
				case *ast.RangeStmt:
					pos = l.Body.Lbrace + 1
					if h.Where == "loopend" {
						pos = l.Body.Rbrace
					}
				}
				emit(h.Stmts, localParams(pos), "", true)
			case "precall":
				call := findNthCall(info, fi.Decl, h.Callee, h.N)
				if call == nil {
					if !h.Optional {
						genErrs = append(genErrs, fmt.Sprintf("contracts:%d: %s has no call %d of %s", h.Stmts.Line, key, h.N, h.Callee))
					}
					continue
				}
				ps := localParams(call.Pos())
				// the receiver of a method call is available to the hook as `recv`
				if se, ok := call.Fun.(*ast.SelectorExpr); ok {
					if sel := info.Selections[se]; sel != nil && sel.Kind() == types.MethodVal {
						if msig, ok := sel.Obj().Type().(*types.Signature); ok && msig.Recv() != nil {
							if _, isI := sel.Recv().Underlying().(*types.Interface); !isI {
								ps = append(ps, "recv "+types.TypeString(msig.Recv().Type(), is.qual))
							}
						}
					}
				}
				for i, a := range call.Args {
					if tv, ok := info.Types[a]; ok && tv.Type != nil {
						at := tv.Type
						if b, ok := at.(*types.Basic); ok && b.Info()&types.IsUntyped != 0 {
							at = types.Default(at)
						}
						if b, ok := at.(*types.Basic); ok && b.Kind() == types.UntypedNil {
							continue
						}
						ps = append(ps, fmt.Sprintf("arg%d %s", i, types.TypeString(at, is.qual)))
					}
				}
				emit(h.Stmts, ps, "", true)
			case "call":
				call := findNthCall(info, fi.Decl, h.Callee, h.N)
				if call == nil {
					if !h.Optional {
						genErrs = append(genErrs, fmt.Sprintf("contracts:%d: %s has no call %d of %s", h.Stmts.Line, key, h.N, h.Callee))
					}
					continue
				}
				ps := localParams(call.Pos())
				if tv, ok := info.Types[call]; ok {
					switch t := tv.Type.(type) {
					case *types.Tuple:
						for i := 0; i < t.Len(); i++ {
							ps = append(ps, fmt.Sprintf("ret%d %s", i, types.TypeString(t.At(i).Type(), is.qual)))
						}
					default:
						if tv.Type != nil {
							ps = append(ps, "ret "+types.TypeString(tv.Type, is.qual))
						}
					}
				}
				emit(h.Stmts, ps, "", true)
			}
		}
	}
	for _, ti := range cf.TypeInvs {
		emit(ti.Clause, []string{ti.Var + " " + ti.Type}, "bool", false)
	}
	for _, gi := range cf.GlobalInvs {
		emit(gi.Clause, nil, "bool", false)
	}
	for _, mv := range cf.MapVals {
		emit(mv.Clause, []string{mv.Var + " " + mv.Type}, "bool", false)
	}
	if len(genErrs) > 0 {
		return nil, fmt.Errorf("contract resolution errors:\n%s", strings.Join(genErrs, "\n"))
	}
	// imports named in clause texts (e.g. math.MaxInt64): take them from the contracts file's own imports
	for i, f := range p1.Syntax {
		if filepath.Base(p1.CompiledGoFiles[i]) != ContractsFileName {
			continue
		}
		for _, im := range f.Imports {
			pth := strings.Trim(im.Path.Value, "\"")
			name := filepath.Base(pth)
			if im.Name != nil {
				name = im.Name.Name
			} else if ip := p1.Imports[pth]; ip != nil {
				name = ip.Name
			}
			if regexp.MustCompile(`\b` + regexp.QuoteMeta(name) + `\s*\.`).MatchString(gen.String()) {
				is.used[pth] = name
			}
		}
	}
	// function-local named struct types of contracted functions: clause functions live at package level and cannot name
	// them, so a package-level twin with the same name and fields is emitted (only when the package has no such name;
	// inside the function the local type shadows the twin; dsvc keys struct fields by type NAME, so both coincide)
	var twins strings.Builder
	twinDone := map[string]bool{}
	for _, key := range cf.Order {
		fi := funcs[key]
		if fi == nil || fi.Decl == nil || fi.Decl.Body == nil {
			continue
		}
		ast.Inspect(fi.Decl.Body, func(n ast.Node) bool {
			tsp, ok := n.(*ast.TypeSpec)
			if !ok {
				return true
			}
			obj, _ := p1.TypesInfo.Defs[tsp.Name].(*types.TypeName)
			if obj == nil || twinDone[tsp.Name.Name] || p1.Types.Scope().Lookup(tsp.Name.Name) != nil {
				return true
			}
			if _, isStruct := obj.Type().Underlying().(*types.Struct); !isStruct {
				return true
			}
			twinDone[tsp.Name.Name] = true
			fmt.Fprintf(&twins, "type %s %s\n\n", tsp.Name.Name, types.TypeString(obj.Type().Underlying(), is.qual))
			return true
		})
	}
	var hdr strings.Builder
	hdr.WriteString("//go:build verif\n\npackage " + p1.Types.Name() + "\n\n")
	var paths []string
	for pth := range is.used {
		paths = append(paths, pth)
	}
	sort.Strings(paths)
	if len(paths) > 0 {
		hdr.WriteString("import (\n")
		for _, pth := range paths {
			fmt.Fprintf(&hdr, "\t%s %q\n", is.used[pth], pth)
		}
		hdr.WriteString(")\n\n")
	}
	genSrc := hdr.String() + twins.String() + gen.String()
	overlay := map[string][]byte{filepath.Join(RepoDir, GenFileName): []byte(genSrc)}
	p2, err := loadPkg(overlay)
	if err != nil {
		return nil, fmt.Errorf("type-checking contracts failed: %v", err)
	}
	prog := &Program{Fset: p2.Fset, Pkg: p2, Info: p2.TypesInfo, CF: cf, GenFuncs: map[string]*ast.FuncDecl{}, GenSrc: genSrc}
	prog.Funcs, prog.FuncByObj = indexFuncs(p2)
	for k, fi := range prog.Funcs {
		if strings.HasPrefix(k, "dsvc_c") {
			prog.GenFuncs[k] = fi.Decl
		}
	}
	bind := func(c *Clause) {
		if c != nil && c.FnName != "" {
			c.Fn = prog.GenFuncs[c.FnName]
		}
	}
	for _, c := range cf.Contracts {
		for _, cl := range c.Requires {
			bind(cl)
		}
		for _, cl := range c.Ensures {
			bind(cl)
		}
		for _, cl := range c.Goals {
			bind(cl)
		}
		for _, ex := range c.Exempts {
			bind(ex.Clause)
		}
		for _, gv := range c.GhostVars {
			bind(gv.Init)
		}
		for _, lc := range c.Loops {
			for _, cl := range lc.Invariants {
				bind(cl)
			}
			bind(lc.Decreases)
		}
		for _, h := range c.Hooks {
			bind(h.Stmts)
		}
		for _, cc := range c.Closures {
			for _, cl := range cc.Requires {
				bind(cl)
			}
			for _, cl := range cc.Ensures {
				bind(cl)
			}
		}
	}
	for _, ti := range cf.TypeInvs {
		bind(ti.Clause)
	}
	for _, gi := range cf.GlobalInvs {
		bind(gi.Clause)
	}
	for _, mv := range cf.MapVals {
		bind(mv.Clause)
	}
	return prog, nil
}

// findNthCall returns the n-th (1-based) call of callee (by function or method name) inside fd, in source order.
func findNthCall(info *types.Info, fd *ast.FuncDecl, callee string, n int) *ast.CallExpr {
	var found *ast.CallExpr
	k := 0
	ast.Inspect(fd.Body, func(nd ast.Node) bool {
		if found != nil {
			return false
		}
		ce, ok := nd.(*ast.CallExpr)
		if !ok {
			return true
		}
		if calleeName(ce) == callee {
			k++
			if k == n {
				found = ce
			}
		}
		return true
	})
	return found
}

func calleeName(ce *ast.CallExpr) string {
	switch f := ce.Fun.(type) {
	case *ast.Ident:
		return f.Name
	case *ast.SelectorExpr:
		if x, ok := f.X.(*ast.Ident); ok {
			return x.Name + "." + f.Sel.Name
		}
		return f.Sel.Name
	}
	return ""
}

// findClosureLit: the function literal assigned (once) to the local named name inside fd.
var litNameRe = regexp.MustCompile(`^lit(\d+)$`)

// nthFuncLit: the n-th function literal of fd in source order (1-based); contracts name it `closure litN`.
func nthFuncLit(fd *ast.FuncDecl, n int) *ast.FuncLit {
	var found *ast.FuncLit
	k := 0
	ast.Inspect(fd.Body, func(nd ast.Node) bool {
		if lit, ok := nd.(*ast.FuncLit); ok {
			k++
			if k == n && found == nil {
				found = lit
			}
		}
		return true
	})
	return found
}

func findClosureLit(info *types.Info, fd *ast.FuncDecl, name string) *ast.FuncLit {
	if m := litNameRe.FindStringSubmatch(name); m != nil {
		n, _ := strconv.Atoi(m[1])
		return nthFuncLit(fd, n)
	}
	var found *ast.FuncLit
	ast.Inspect(fd.Body, func(n ast.Node) bool {
		as, ok := n.(*ast.AssignStmt)
		if !ok {
			return true
		}
		for i, l := range as.Lhs {
			if id, ok := l.(*ast.Ident); ok && id.Name == name && i < len(as.Rhs) {
				if lit, ok := as.Rhs[i].(*ast.FuncLit); ok && found == nil {
					found = lit
				}
			}
		}
		return true
	})
	return found
}
