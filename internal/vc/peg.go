package vc

import (
	"fmt"
	"go/ast"
	"go/token"
	"go/types"
	"sort"
	"strconv"
	"strings"
)

// Engine B: the compiler is the PEG table `g` in roll.peg.go plus the action closures.  The table is read
// mechanically from the AST on every run; nothing about it is hand-copied.

type pegKind int

const (
	pkSeq pegKind = iota
	pkChoice
	pkStar
	pkPlus
	pkOpt
	pkAnd     // &e  (skip mode)
	pkNot     // !e  (skip mode)
	pkAndCode // &{pred}
	pkNotCode // !{pred}
	pkAction  // e {action}
	pkCode    // {code} state block
	pkLabeled
	pkLit
	pkClass
	pkAny
	pkRef
)

type pegNode struct {
	Kind    pegKind
	Kids    []*pegNode
	Fn      string // action / predicate function name (call_on...)
	Label   string
	Text    string // literal / class text
	Ref     int    // rule index
	RefName string
	Pos     token.Pos
	NotSkip bool
	Logical bool // && / !! variants
	Rule    *pegRule
	id      int
	// character classes: the explicit characters, ranges (pairs) and the inverted flag of the table entry
	Chars    []rune
	Ranges   []rune
	Inverted bool
}

type pegRule struct {
	Name    string
	Display string
	Expr    *pegNode
	Index   int
}

type pegGrammar struct {
	Rules  []*pegRule
	ByName map[string]*pegRule
	nodes  int
}

func (e *Engine) parsePEG() (*pegGrammar, error) {
	var lit *ast.CompositeLit
	for i, f := range e.P.Pkg.Syntax {
		if !strings.HasSuffix(e.P.Pkg.CompiledGoFiles[i], "roll.peg.go") {
			continue
		}
		for _, d := range f.Decls {
			gd, ok := d.(*ast.GenDecl)
			if !ok || gd.Tok != token.VAR {
				continue
			}
			for _, sp := range gd.Specs {
				vs := sp.(*ast.ValueSpec)
				for i, n := range vs.Names {
					if n.Name == "g" && i < len(vs.Values) {
						if u, ok := vs.Values[i].(*ast.UnaryExpr); ok {
							lit, _ = u.X.(*ast.CompositeLit)
						}
					}
				}
			}
		}
	}
	if lit == nil {
		return nil, fmt.Errorf("grammar literal `g` not found in roll.peg.go")
	}
	g := &pegGrammar{ByName: map[string]*pegRule{}}
	var rulesLit *ast.CompositeLit
	for _, el := range lit.Elts {
		if kv, ok := el.(*ast.KeyValueExpr); ok && identName(kv.Key) == "rules" {
			rulesLit, _ = kv.Value.(*ast.CompositeLit)
		}
	}
	if rulesLit == nil {
		return nil, fmt.Errorf("grammar literal has no rules")
	}
	for i, el := range rulesLit.Elts {
		rl, ok := el.(*ast.CompositeLit)
		if !ok {
			return nil, fmt.Errorf("rule %d is not a composite literal", i)
		}
		r := &pegRule{Index: i}
		var exprAst ast.Expr
		for _, f := range rl.Elts {
			kv := f.(*ast.KeyValueExpr)
			switch identName(kv.Key) {
			case "name":
				r.Name = strLit(kv.Value)
			case "displayName":
				r.Display = strLit(kv.Value)
			case "expr":
				exprAst = kv.Value
			}
		}
		g.Rules = append(g.Rules, r)
		g.ByName[r.Name] = r
		n, err := g.parseNode(exprAst, r)
		if err != nil {
			return nil, fmt.Errorf("rule %s: %v", r.Name, err)
		}
		r.Expr = n
	}
	// resolve references
	var fix func(n *pegNode) error
	fix = func(n *pegNode) error {
		if n.Kind == pkRef {
			if n.RefName != "" && g.ByName[n.RefName] != nil {
				n.Ref = g.ByName[n.RefName].Index
			}
			if n.Ref < 0 || n.Ref >= len(g.Rules) {
				return fmt.Errorf("bad rule reference")
			}
			n.RefName = g.Rules[n.Ref].Name
		}
		for _, k := range n.Kids {
			if err := fix(k); err != nil {
				return err
			}
		}
		return nil
	}
	for _, r := range g.Rules {
		if err := fix(r.Expr); err != nil {
			return nil, err
		}
	}
	return g, nil
}

func identName(x ast.Expr) string {
	if id, ok := x.(*ast.Ident); ok {
		return id.Name
	}
	return ""
}

// runeList reads a []rune{...} composite literal of character literals.
func runeList(x ast.Expr) []rune {
	cl, ok := x.(*ast.CompositeLit)
	if !ok {
		return nil
	}
	var out []rune
	for _, el := range cl.Elts {
		if bl, ok := el.(*ast.BasicLit); ok && bl.Kind == token.CHAR {
			if r, _, _, err := strconv.UnquoteChar(bl.Value[1:len(bl.Value)-1], '\''); err == nil {
				out = append(out, r)
			}
		}
	}
	return out
}

func strLit(x ast.Expr) string {
	if bl, ok := x.(*ast.BasicLit); ok && bl.Kind == token.STRING {
		s, err := strconv.Unquote(bl.Value)
		if err == nil {
			return s
		}
	}
	return ""
}

func (g *pegGrammar) parseNode(x ast.Expr, r *pegRule) (*pegNode, error) {
	u, ok := x.(*ast.UnaryExpr)
	if !ok || u.Op != token.AND {
		return nil, fmt.Errorf("expected &node at %v", x.Pos())
	}
	cl, ok := u.X.(*ast.CompositeLit)
	if !ok {
		return nil, fmt.Errorf("expected composite literal")
	}
	tn := identName(cl.Type)
	g.nodes++
	n := &pegNode{Pos: cl.Pos(), Rule: r, id: g.nodes}
	field := func(name string) ast.Expr {
		for _, el := range cl.Elts {
			if kv, ok := el.(*ast.KeyValueExpr); ok && identName(kv.Key) == name {
				return kv.Value
			}
		}
		return nil
	}
	fnName := func(x ast.Expr) string {
		// (*parser).call_onX_N
		if se, ok := x.(*ast.SelectorExpr); ok {
			return se.Sel.Name
		}
		return ""
	}
	kids := func(name string) error {
		lst, ok := field(name).(*ast.CompositeLit)
		if !ok {
			return fmt.Errorf("%s: missing %s", tn, name)
		}
		for _, el := range lst.Elts {
			k, err := g.parseNode(el, r)
			if err != nil {
				return err
			}
			n.Kids = append(n.Kids, k)
		}
		return nil
	}
	one := func() error {
		k, err := g.parseNode(field("expr"), r)
		if err != nil {
			return err
		}
		n.Kids = []*pegNode{k}
		return nil
	}
	var err error
	switch tn {
	case "seqExpr":
		n.Kind = pkSeq
		err = kids("exprs")
	case "choiceExpr":
		n.Kind = pkChoice
		err = kids("alternatives")
	case "zeroOrMoreExpr":
		n.Kind = pkStar
		err = one()
	case "oneOrMoreExpr":
		n.Kind = pkPlus
		err = one()
	case "zeroOrOneExpr":
		n.Kind = pkOpt
		err = one()
	case "andExpr":
		n.Kind = pkAnd
		err = one()
	case "andLogicalExpr":
		n.Kind = pkAnd
		n.Logical = true
		err = one()
	case "notExpr":
		n.Kind = pkNot
		err = one()
	case "notLogicalExpr":
		n.Kind = pkNot
		n.Logical = true
		err = one()
	case "andCodeExpr":
		n.Kind = pkAndCode
		n.Fn = fnName(field("run"))
	case "notCodeExpr":
		n.Kind = pkNotCode
		n.Fn = fnName(field("run"))
	case "actionExpr":
		n.Kind = pkAction
		n.Fn = fnName(field("run"))
		err = one()
	case "codeExpr":
		n.Kind = pkCode
		n.Fn = fnName(field("run"))
		if ns := field("notSkip"); ns != nil && identName(ns) == "true" {
			n.NotSkip = true
		}
	case "labeledExpr":
		n.Kind = pkLabeled
		n.Label = strLit(field("label"))
		err = one()
	case "litMatcher":
		n.Kind = pkLit
		n.Text = strLit(field("val"))
	case "charClassMatcher":
		n.Kind = pkClass
		n.Text = strLit(field("val"))
		n.Chars = runeList(field("chars"))
		n.Ranges = runeList(field("ranges"))
		if id, ok := field("inverted").(*ast.Ident); ok && id.Name == "true" {
			n.Inverted = true
		}
	case "anyMatcher":
		n.Kind = pkAny
	case "ruleIRefExpr":
		n.Kind = pkRef
		if bl, ok := field("index").(*ast.BasicLit); ok {
			n.Ref, _ = strconv.Atoi(bl.Value)
		}
	case "ruleRefExpr":
		n.Kind = pkRef
		n.Ref = -1
		n.RefName = strLit(field("name"))
	default:
		return nil, fmt.Errorf("unsupported PEG node type %s", tn)
	}
	return n, err
}

// ---- per-action facts (from the effect pass over the action functions) ----------------------

type actionFacts struct {
	Emits        bool            // writes parser data (code buffer, stacks, flags)
	Aborts       bool            // records a parse error (p.addErr): the whole parse fails, emitted code never runs
	FlagWrites   []string        // RollConfig fields assigned
	FlagSets     map[string]bool // RollConfig fields assigned a boolean constant by a top-level statement of the action
	Ops          []string        // opcodes emitted directly (constant first argument of AddOp / WriteCode), in source order
	Calls        []string        // ParserData methods called, in source order
	ReadsFlag    string          // for predicates of the form `return [!]c.data.Config.X`
	FlagNeg      bool
	ReturnsFalse bool // the function may return the constant false (actions: means "fail")
}

func (e *Engine) actionFactsOf(fn string) *actionFacts {
	if e.pegFacts == nil {
		e.pegFacts = map[string]*actionFacts{}
	}
	if f, ok := e.pegFacts[fn]; ok {
		return f
	}
	af := &actionFacts{}
	e.pegFacts[fn] = af
	fi := e.P.Funcs["(*parser)."+fn]
	if fi == nil || fi.Obj == nil {
		return af
	}
	info := e.P.Info
	if t := e.effects.Trans[fi.Obj]; t != nil {
		for k := range t.Writes {
			if strings.HasPrefix(k, "ParserData.") || strings.HasPrefix(k, "ByteCode.") || strings.HasPrefix(k, "ParserCustomData.") || strings.HasPrefix(k, "RollConfig.") {
				af.Emits = true
			}
			if strings.HasPrefix(k, "RollConfig.") {
				af.FlagWrites = append(af.FlagWrites, strings.TrimPrefix(k, "RollConfig."))
			}
		}
		// appends to parser stacks show up as element writes: look at callees too
		for c := range e.effects.Local[fi.Obj].Callees {
			if cfi := e.P.FuncByObj[c]; cfi != nil && (strings.HasPrefix(cfi.Key, "(*ParserData).") || strings.HasPrefix(cfi.Key, "(*ParserCustomData).")) {
				ct := e.effects.Trans[c]
				if ct != nil && len(ct.Writes) > 0 {
					af.Emits = true
				}
			}
		}
	}
	sort.Strings(af.FlagWrites)
	af.FlagSets = map[string]bool{}
	topStmts := fi.Decl.Body.List
	// pigeon wraps the action code: return (func(c *current) any { ... })(&p.cur)
	if len(topStmts) == 1 {
		if rs, ok := topStmts[0].(*ast.ReturnStmt); ok && len(rs.Results) == 1 {
			if ce, ok := rs.Results[0].(*ast.CallExpr); ok {
				fun := ce.Fun
				if pe, ok := fun.(*ast.ParenExpr); ok {
					fun = pe.X
				}
				if fl, ok := fun.(*ast.FuncLit); ok {
					topStmts = fl.Body.List
				}
			}
		}
	}
	for _, stm := range topStmts {
		as, ok := stm.(*ast.AssignStmt)
		if !ok || len(as.Lhs) != 1 || len(as.Rhs) != 1 {
			continue
		}
		se, ok := as.Lhs[0].(*ast.SelectorExpr)
		if !ok {
			continue
		}
		in, ok := se.X.(*ast.SelectorExpr)
		if !ok || in.Sel.Name != "Config" {
			continue
		}
		if id, ok := as.Rhs[0].(*ast.Ident); ok && (id.Name == "true" || id.Name == "false") {
			af.FlagSets[se.Sel.Name] = id.Name == "true"
		} else {
			delete(af.FlagSets, se.Sel.Name)
		}
	}
	ast.Inspect(fi.Decl.Body, func(n ast.Node) bool {
		switch u := n.(type) {
		case *ast.CallExpr:
			if se, ok := u.Fun.(*ast.SelectorExpr); ok {
				if se.Sel.Name == "addErr" {
					af.Aborts = true
				}
				// c.data.X(...), or d.X(...) where d is an alias of the parser data (by type)
				isData := false
				if inner, ok := se.X.(*ast.SelectorExpr); ok && inner.Sel.Name == "data" {
					isData = true
				} else if t := info.TypeOf(se.X); t != nil {
					ts := strings.TrimPrefix(e.typeStr(t), "*")
					isData = ts == "ParserCustomData" || ts == "ParserData"
				}
				if isData {
					af.Calls = append(af.Calls, se.Sel.Name)
					if (se.Sel.Name == "AddOp" || se.Sel.Name == "WriteCode") && len(u.Args) > 0 {
						if id, ok := u.Args[0].(*ast.Ident); ok {
							if c, ok := info.Uses[id].(*types.Const); ok && e.typeStr(c.Type()) == "CodeType" {
								af.Ops = append(af.Ops, id.Name)
							}
						}
					}
				}
			}
		case *ast.ReturnStmt:
			if len(u.Results) == 1 {
				x := u.Results[0]
				neg := false
				if ue, ok := x.(*ast.UnaryExpr); ok && ue.Op == token.NOT {
					neg = true
					x = ue.X
				}
				if se, ok := x.(*ast.SelectorExpr); ok {
					if in, ok := se.X.(*ast.SelectorExpr); ok && in.Sel.Name == "Config" {
						af.ReadsFlag = se.Sel.Name
						af.FlagNeg = neg
					}
				}
				if id, ok := x.(*ast.Ident); ok && id.Name == "false" && !neg {
					af.ReturnsFalse = true
				}
			}
		}
		return true
	})
	return af
}

// ---- structural queries ------------------------------------------------------------------------------

type pegAnalysis struct {
	e        *Engine
	g        *pegGrammar
	canFail  map[*pegRule]bool
	emits    map[*pegRule]bool
	consumes map[*pegRule]bool // may consume input
	stripped map[int]string    // node id -> code-stripped structural text
}

func (pa *pegAnalysis) fixpoints() {
	g := pa.g
	pa.canFail = map[*pegRule]bool{}
	pa.emits = map[*pegRule]bool{}
	for changed := true; changed; {
		changed = false
		for _, r := range g.Rules {
			if !pa.canFail[r] && pa.nodeCanFail(r.Expr) {
				pa.canFail[r] = true
				changed = true
			}
			if !pa.emits[r] && pa.nodeEmits(r.Expr) {
				pa.emits[r] = true
				changed = true
			}
		}
	}
}

func (pa *pegAnalysis) nodeCanFail(n *pegNode) bool {
	switch n.Kind {
	case pkSeq:
		for _, k := range n.Kids {
			if pa.nodeCanFail(k) {
				return true
			}
		}
		return false
	case pkChoice:
		for _, k := range n.Kids {
			if !pa.nodeCanFail(k) {
				return false
			}
		}
		return true
	case pkStar, pkOpt, pkCode:
		return false
	case pkPlus, pkLabeled:
		return pa.nodeCanFail(n.Kids[0])
	case pkAction:
		if pa.nodeCanFail(n.Kids[0]) {
			return true
		}
		return false
	case pkAnd, pkNot, pkAndCode, pkNotCode, pkLit, pkClass, pkAny:
		if n.Kind == pkLit && n.Text == "" {
			return false
		}
		return true
	case pkRef:
		return pa.canFail[pa.g.Rules[n.Ref]]
	}
	return true
}

// nodeEmits: may run an emitting action in act mode when it succeeds (or before it fails).
func (pa *pegAnalysis) nodeEmits(n *pegNode) bool {
	switch n.Kind {
	case pkAction, pkCode:
		if pa.e.actionFactsOf(n.Fn).Emits {
			return true
		}
	case pkAnd, pkNot:
		return false // skip mode: actions and state code are skipped
	case pkAndCode, pkNotCode:
		return pa.e.actionFactsOf(n.Fn).Emits
	case pkRef:
		return pa.emits[pa.g.Rules[n.Ref]]
	}
	for _, k := range n.Kids {
		if pa.nodeEmits(k) {
			return true
		}
	}
	return false
}

// strip renders the expression without actions, code blocks, labels and predicates' side: the text that decides matching.
func (pa *pegAnalysis) strip(n *pegNode) string {
	if s, ok := pa.stripped[n.id]; ok {
		return s
	}
	var s string
	switch n.Kind {
	case pkSeq:
		var parts []string
		for _, k := range n.Kids {
			if t := pa.strip(k); t != "" {
				parts = append(parts, t)
			}
		}
		if len(parts) == 1 {
			s = parts[0]
		} else {
			s = "(" + strings.Join(parts, " ") + ")"
		}
	case pkChoice:
		var parts []string
		for _, k := range n.Kids {
			parts = append(parts, pa.strip(k))
		}
		s = "(" + strings.Join(parts, " / ") + ")"
	case pkStar:
		s = pa.strip(n.Kids[0]) + "*"
	case pkPlus:
		s = pa.strip(n.Kids[0]) + "+"
	case pkOpt:
		s = pa.strip(n.Kids[0]) + "?"
	case pkAnd:
		s = "&" + pa.strip(n.Kids[0])
	case pkNot:
		s = "!" + pa.strip(n.Kids[0])
	case pkAndCode:
		s = "&{" + n.Fn + "}"
	case pkNotCode:
		s = "!{" + n.Fn + "}"
	case pkAction, pkLabeled:
		s = pa.strip(n.Kids[0])
	case pkCode:
		s = ""
	case pkLit:
		s = strconv.Quote(n.Text)
	case pkClass:
		s = n.Text
	case pkAny:
		s = "."
	case pkRef:
		s = "<" + n.RefName + ">"
	}
	pa.stripped[n.id] = s
	return s
}

// stripDeep: like strip but rule references whose bodies contain no predicates are expanded one level when comparing
// guards (a guard `&X` and the guarded `X` usually name the same rule, so equality of names suffices).
func (pa *pegAnalysis) sameMatch(a, b *pegNode) bool {
	return pa.strip(a) == pa.strip(b)
}

// isEpsilon: matches without consuming and cannot fail (state code, rules made of state code).
func (pa *pegAnalysis) isEpsilon(n *pegNode) bool {
	switch n.Kind {
	case pkCode:
		return true
	case pkRef:
		r := pa.g.Rules[n.Ref]
		return pa.isEpsilon(r.Expr)
	case pkSeq:
		for _, k := range n.Kids {
			if !pa.isEpsilon(k) {
				return false
			}
		}
		return true
	case pkLabeled:
		return pa.isEpsilon(n.Kids[0])
	}
	return false
}

func (pa *pegAnalysis) path(n *pegNode, idx ...int) string {
	var sb strings.Builder
	sb.WriteString(n.Rule.Name)
	for _, i := range idx {
		fmt.Fprintf(&sb, ".%d", i)
	}
	return sb.String()
}
