package vc

import (
	"fmt"
	"go/ast"
	"go/token"
	"go/types"
	"os"
	"sort"
	"strconv"
	"strings"
)

// Ghost typing of the compiler (C08, and the compile side of C02/C13/C18).
//
// Every grammar rule is a procedure that emits code while it matches.  The analysis interprets the rule tree and the
// bodies of the semantic actions (and of the ParserData methods they call) over an abstract state that describes the
// code emitted so far in the current code buffer:
//
//   H       guaranteed height of the operand stack at the current emission point, relative to the rule's entry
//           (an affine form over the iteration counts of the `*`/`+` groups passed; exact or a lower bound)
//   B F D   open block.push / fstr.block.push / dice.init (with the heights the block instructions saved)
//   detail  a mark.detail instruction precedes on every path
//   jmp     the jump-patching stack: for every pending jump the state on its taken branch
//   cnt     the counter stack: value and the height at the matching CounterPush
//   names, brk/cont, loops, flags, code buffers
//
// The stack effect of every opcode comes from the spec functions specPops/specPushes/specNeedsDetail/specNeedsDice
// of /repo/verif_contracts.go, which Engine A proves against every case of the VM (`evaluate`); the branch behaviour
// of jne/je/je.dup/jmp and of the block instructions is stated here and asserted on the VM side by ghost assertions.
// Obligations (one per site, named by grammar path):
//   typed:pops      the stack holds the operands of the emitted instruction
//   typed:count     the count operand of push.array/push.dict/invoke/ld.fs equals the values pushed since CounterPush
//   typed:bind      a jump and its target agree on B F D (and on H where both are exact)
//   typed:agree     the alternatives of a choice have the same effect (expression rules)
//   typed:loop      a repetition body has an iteration-independent, stack-neutral effect
//   typed:root      a code buffer ends balanced (no pending jump, counter, name, block)
//   typed:st-one    every alternative of an st edit emits exactly one st.* instruction

// ---- affine forms -----------------------------------------------------------------------------------------------------

type aff struct {
	c int64
	s map[int]int64
}

func affC(c int64) aff { return aff{c: c} }

func (a aff) clone() aff {
	o := aff{c: a.c}
	if len(a.s) > 0 {
		o.s = map[int]int64{}
		for k, v := range a.s {
			o.s[k] = v
		}
	}
	return o
}

func (a aff) add(b aff) aff {
	o := a.clone()
	o.c += b.c
	for k, v := range b.s {
		if o.s == nil {
			o.s = map[int]int64{}
		}
		o.s[k] += v
		if o.s[k] == 0 {
			delete(o.s, k)
		}
	}
	return o
}

func (a aff) scale(k int64) aff {
	o := aff{c: a.c * k}
	if k != 0 {
		for s, v := range a.s {
			if o.s == nil {
				o.s = map[int]int64{}
			}
			o.s[s] = v * k
		}
	}
	return o
}

func (a aff) sub(b aff) aff { return a.add(b.scale(-1)) }

func (a aff) isConst() bool { return len(a.s) == 0 }

func (a aff) eq(b aff) bool {
	d := a.sub(b)
	return d.c == 0 && len(d.s) == 0
}

// lower: a constant lower bound (symbols are >= 0); ok=false when a symbol has a negative coefficient.
func (a aff) lower() (int64, bool) {
	for _, v := range a.s {
		if v < 0 {
			return 0, false
		}
	}
	return a.c, true
}

func (a aff) String() string {
	var ks []int
	for k := range a.s {
		ks = append(ks, k)
	}
	sort.Ints(ks)
	s := strconv.FormatInt(a.c, 10)
	for _, k := range ks {
		s += fmt.Sprintf("%+d*n%d", a.s[k], k)
	}
	return s
}

func (a aff) rename(m map[int]int, fresh func() int) aff {
	if len(a.s) == 0 {
		return a
	}
	o := aff{c: a.c, s: map[int]int64{}}
	for k, v := range a.s {
		nk, ok := m[k]
		if !ok {
			nk = fresh()
			m[k] = nk
		}
		o.s[nk] = v
	}
	return o
}

// ---- abstract state ---------------------------------------------------------------------------------------------------

type hval struct {
	v     aff
	exact bool
}

func (h hval) String() string {
	if h.exact {
		return h.v.String()
	}
	return ">=" + h.v.String()
}

type snap struct {
	dead    bool
	H       hval
	B, F, D int
	detail  bool
}

type jent struct {
	sn    snap
	opID  int
	label bool // OffsetPush after an instruction that is not a jump: marks a position (state after the instruction)
}

type jseg struct {
	n aff // how many entries of this shape
	e jent
}

type cent struct {
	v   aff
	unk bool
	h   hval // height at CounterPush
	hd  bool // pushed while dead
}

type bufSave struct {
	sn        snap
	blk, fbl  []hval
	jmpLen    int
	cntLen    int
	needH     int64
	brk, cont []jseg
}

type tstate struct {
	sn          snap
	blk         []hval // heights saved by block.push instructions opened since entry
	fbl         []hval
	cnt         []cent
	cntOuter    aff // added to the counter that was on top at entry
	cntOuterUnk bool
	cntUnder    int // counters of the caller popped (detailEnd pops what detailStart pushed)
	names       aff
	jmp         []jseg
	brk         []jseg
	cont        []jseg
	loops       []int // LoopBegin marks: len(jmp) at LoopBegin (unused), depth only
	loopB       []int // open blocks at LoopBegin
	loopF       []int // open templates at LoopBegin
	flags       int
	bufs        []bufSave
	st          aff // st.* instructions emitted
	lastOp      int
	lastIsJump  bool
	lastJump    string
	jumpSnap    snap // state on the taken branch of the jump emitted last
	// requirements on the state at entry
	needH               int64
	needB, needF, needD int
	needDetail          bool
	needWhy             string
	unknown             string // non-empty: the effect could not be determined (reason)
}

func (s *tstate) clone() *tstate {
	o := *s
	o.blk = append([]hval(nil), s.blk...)
	o.fbl = append([]hval(nil), s.fbl...)
	o.cnt = append([]cent(nil), s.cnt...)
	o.jmp = append([]jseg(nil), s.jmp...)
	o.brk = append([]jseg(nil), s.brk...)
	o.cont = append([]jseg(nil), s.cont...)
	o.loops = append([]int(nil), s.loops...)
	o.loopB = append([]int(nil), s.loopB...)
	o.loopF = append([]int(nil), s.loopF...)
	o.bufs = append([]bufSave(nil), s.bufs...)
	return &o
}

func newTState() *tstate {
	return &tstate{sn: snap{H: hval{v: affC(0), exact: true}}, names: affC(0), st: affC(0), cntOuter: affC(0), lastOp: -1}
}

// ---- the analysis -----------------------------------------------------------------------------------------------------

type typing struct {
	e        *Engine
	pa       *pegAnalysis
	pops     map[string][2]int64 // opcode -> (coef of operand V, constant)
	pushes   map[string]int64
	needsDet map[string]bool
	needsDic map[string]bool
	summary  map[*pegRule]*tstate // nil: not yet known (bottom)
	inexact  map[string]bool      // statement rules: alternatives may differ in H (lower bound)
	symSeq   int
	opSeq    int
	viol     map[string]string // obligation name -> detail (failed)
	seen     map[string]string // obligation name -> description
	props    map[string][]string
	report   bool
	methods  map[string]*FuncInfo
	depth    int
	mustOnce map[int]bool // option / repetition nodes whose empty match is shadowed by an earlier alternative
}

func (t *typing) fresh() int { t.symSeq++; return t.symSeq }

func (t *typing) obl(name, desc string, props []string, ok bool, detail string) {
	if !t.report {
		return
	}
	if _, dup := t.seen[name]; !dup {
		t.seen[name] = desc
		t.props[name] = props
	}
	if !ok {
		if _, have := t.viol[name]; !have {
			t.viol[name] = detail
		}
	}
}

var propsTyped = []string{"C08"}
var propsCount = []string{"C08", "C13", "C02"}
var propsSt = []string{"C18", "C08"}

// ---- opcode tables from the spec functions ----------------------------------------------------------------------------

func (t *typing) loadTables() error {
	t.pops, t.pushes, t.needsDet, t.needsDic = map[string][2]int64{}, map[string]int64{}, map[string]bool{}, map[string]bool{}
	get := func(name string) (*ast.SwitchStmt, error) {
		fi := t.e.P.Funcs[name]
		if fi == nil || fi.Decl == nil || fi.Decl.Body == nil {
			return nil, fmt.Errorf("spec function %s not found", name)
		}
		for _, st := range fi.Decl.Body.List {
			if sw, ok := st.(*ast.SwitchStmt); ok {
				return sw, nil
			}
		}
		return nil, fmt.Errorf("spec function %s has no switch", name)
	}
	// value expression of the form k, c.Value.(IntType), k*c.Value.(IntType), c.Value.(IntType)+k
	var lin func(x ast.Expr) ([2]int64, bool)
	lin = func(x ast.Expr) ([2]int64, bool) {
		switch u := x.(type) {
		case *ast.BasicLit:
			v, err := strconv.ParseInt(u.Value, 10, 64)
			return [2]int64{0, v}, err == nil
		case *ast.TypeAssertExpr:
			return [2]int64{1, 0}, true
		case *ast.ParenExpr:
			return lin(u.X)
		case *ast.BinaryExpr:
			a, ok1 := lin(u.X)
			b, ok2 := lin(u.Y)
			if !ok1 || !ok2 {
				return [2]int64{}, false
			}
			switch u.Op {
			case token.ADD:
				return [2]int64{a[0] + b[0], a[1] + b[1]}, true
			case token.MUL:
				if a[0] == 0 {
					return [2]int64{a[1] * b[0], a[1] * b[1]}, true
				}
				if b[0] == 0 {
					return [2]int64{a[0] * b[1], a[1] * b[1]}, true
				}
			}
		}
		return [2]int64{}, false
	}
	each := func(sw *ast.SwitchStmt, f func(op string, ret ast.Expr) error) error {
		for _, c := range sw.Body.List {
			cc := c.(*ast.CaseClause)
			if len(cc.Body) != 1 {
				return fmt.Errorf("unexpected case body")
			}
			rs, ok := cc.Body[0].(*ast.ReturnStmt)
			if !ok || len(rs.Results) != 1 {
				return fmt.Errorf("unexpected case body")
			}
			for _, x := range cc.List {
				id, ok := x.(*ast.Ident)
				if !ok {
					return fmt.Errorf("case label is not an opcode constant")
				}
				if err := f(id.Name, rs.Results[0]); err != nil {
					return err
				}
			}
		}
		return nil
	}
	sw, err := get("specPops")
	if err != nil {
		return err
	}
	if err := each(sw, func(op string, ret ast.Expr) error {
		v, ok := lin(ret)
		if !ok {
			return fmt.Errorf("specPops: unsupported expression for %s", op)
		}
		t.pops[op] = v
		return nil
	}); err != nil {
		return err
	}
	sw, err = get("specPushes")
	if err != nil {
		return err
	}
	if err := each(sw, func(op string, ret ast.Expr) error {
		v, ok := lin(ret)
		if !ok || v[0] != 0 {
			return fmt.Errorf("specPushes: unsupported expression for %s", op)
		}
		t.pushes[op] = v[1]
		return nil
	}); err != nil {
		return err
	}
	for name, m := range map[string]map[string]bool{"specNeedsDetail": t.needsDet, "specNeedsDice": t.needsDic} {
		sw, err = get(name)
		if err != nil {
			return err
		}
		if err := each(sw, func(op string, ret ast.Expr) error {
			if id, ok := ret.(*ast.Ident); ok && id.Name == "true" {
				m[op] = true
			}
			return nil
		}); err != nil {
			return err
		}
	}
	return nil
}

// ---- values of action-local expressions -------------------------------------------------------------------------------

type aval struct {
	kind int // 0 unknown, 1 affine integer, 2 opcode constant, 3 boolean constant
	a    aff
	op   string
	b    bool
}

type tenv map[types.Object]aval

// ---- emission ---------------------------------------------------------------------------------------------------------

func (t *typing) lowerH(s *tstate) int64 {
	lb, ok := s.sn.H.v.lower()
	if !ok {
		return -1 << 40
	}
	return lb
}

func (t *typing) need(s *tstate, k aff, path, what string) {
	// the stack must hold k values: H - k >= 0 relative to entry, else a requirement on the entry height
	d := s.sn.H.v.sub(k)
	lb, ok := d.lower()
	if !ok {
		t.obl("peg:"+path+"/typed:pops@"+what, "the operand stack holds the operands of "+what, propsTyped, false,
			fmt.Sprintf("height %s, operands %s: not comparable", s.sn.H, k))
		return
	}
	if len(s.bufs) > 0 {
		// inside a nested code buffer heights are absolute
		t.obl("peg:"+path+"/typed:pops@"+what, "the operand stack holds the operands of "+what, propsTyped, lb >= 0,
			fmt.Sprintf("in a nested code buffer the stack holds %s values, the instruction needs %s", s.sn.H, k))
		return
	}
	t.obl("peg:"+path+"/typed:pops@"+what, "the operand stack holds the operands of "+what, propsTyped, true, "")
	if -lb > s.needH {
		s.needH = -lb
		s.needWhy = fmt.Sprintf("%s at %s needs %s operands with %s pushed since the rule began", what, path, k, s.sn.H)
	}
}

func (t *typing) setH(s *tstate, v aff) { s.sn.H.v = v }

// emit: the abstract effect of WriteCode(op, value).
func (t *typing) emit(s *tstate, op string, val aval, path string) {
	t.opSeq++
	s.lastOp = t.opSeq
	s.lastIsJump = false
	if s.sn.dead {
		// unreachable code: structure only
		switch op {
		case "typeBlockPush":
			s.sn.B++
			s.blk = append(s.blk, hval{v: affC(0)})
		case "typeBlockPop":
			if len(s.blk) > 0 {
				s.blk = s.blk[:len(s.blk)-1]
				s.sn.B--
			}
		case "typeFStringBlockPush":
			s.sn.F++
			s.fbl = append(s.fbl, hval{v: affC(0)})
		case "typeFStringBlockPop":
			if len(s.fbl) > 0 {
				s.fbl = s.fbl[:len(s.fbl)-1]
				s.sn.F--
			}
		case "typeJmp", "typeJne", "typeJe", "typeJeDup":
			s.lastIsJump = true
			s.lastJump = op
			s.jumpSnap = s.sn
		}
		if isStOp(op) {
			s.st = s.st.add(affC(1))
		}
		return
	}
	if isStOp(op) {
		s.st = s.st.add(affC(1))
	}
	if t.needsDet[op] && !s.sn.detail {
		if len(s.bufs) > 0 {
			t.obl("peg:"+path+"/typed:detail@"+op, "a mark.detail precedes "+op, propsTyped, false, "no mark.detail instruction precedes "+op+" in this code buffer")
		} else {
			s.needDetail = true
		}
	} else if t.needsDet[op] {
		t.obl("peg:"+path+"/typed:detail@"+op, "a mark.detail precedes "+op, propsTyped, true, "")
	}
	if t.needsDic[op] {
		if s.sn.D < 1 {
			if len(s.bufs) > 0 {
				t.obl("peg:"+path+"/typed:dice@"+op, "a dice.init is open at "+op, propsTyped, false, "no dice.init is open")
			} else if 1-s.sn.D > s.needD {
				s.needD = 1 - s.sn.D
			}
		} else {
			t.obl("peg:"+path+"/typed:dice@"+op, "a dice.init is open at "+op, propsTyped, true, "")
		}
	}
	switch op {
	case "typeBlockPush":
		s.sn.B++
		s.blk = append(s.blk, s.sn.H)
		return
	case "typeBlockPop":
		if len(s.blk) == 0 {
			t.obl("peg:"+path+"/typed:block@block.pop", "block.pop closes a block.push of the same rule", propsTyped, false, "no block.push is open in this rule")
			s.needB++
			return
		}
		t.obl("peg:"+path+"/typed:block@block.pop", "block.pop closes a block.push of the same rule", propsTyped, true, "")
		h := s.blk[len(s.blk)-1]
		s.blk = s.blk[:len(s.blk)-1]
		s.sn.B--
		s.sn.H = hval{v: h.v.add(affC(1)), exact: h.exact}
		return
	case "typeFStringBlockPush":
		s.sn.F++
		s.fbl = append(s.fbl, s.sn.H)
		return
	case "typeFStringBlockPop":
		if len(s.fbl) == 0 {
			t.obl("peg:"+path+"/typed:block@fstr.block.pop", "fstr.block.pop closes an fstr.block.push of the same rule", propsTyped, false, "no fstr.block.push is open in this rule")
			s.needF++
			return
		}
		t.obl("peg:"+path+"/typed:block@fstr.block.pop", "fstr.block.pop closes an fstr.block.push of the same rule", propsTyped, true, "")
		h := s.fbl[len(s.fbl)-1]
		// break / continue inside the template block would leave it with the fstr block still open
		esc := false
		keep := func(l []jseg) []jseg {
			var o []jseg
			for _, j := range l {
				if !j.e.sn.dead && j.e.sn.F != markLoopDepth && j.e.sn.F >= s.sn.F {
					esc = true
					continue
				}
				o = append(o, j)
			}
			return o
		}
		s.brk, s.cont = keep(s.brk), keep(s.cont)
		t.obl("peg:"+path+"/typed:bind@template-escape", "no break/continue jumps out of a template block", propsTyped, !esc,
			"a break or continue inside the template's statement block jumps to its loop with the fstr.block.push still open")
		// the VM keeps what is above the saved height only if something is there: never pops below it
		d := s.sn.H.v.sub(h.v)
		lb, ok := d.lower()
		t.obl("peg:"+path+"/typed:pops@fstr.block.pop", "the template block did not pop below the height saved by fstr.block.push", propsTyped, ok && lb >= 0,
			fmt.Sprintf("height %s at fstr.block.pop, saved %s", s.sn.H, h))
		s.fbl = s.fbl[:len(s.fbl)-1]
		s.sn.F--
		s.sn.H = hval{v: h.v.add(affC(1)), exact: h.exact}
		return
	case "typeDiceInit":
		s.sn.D++
		return
	case "typeDetailMark":
		s.sn.detail = true
		return
	case "typeJmp":
		s.lastIsJump = true
		s.lastJump = op
		s.jumpSnap = s.sn
		s.sn.dead = true // the code after an unconditional jump is unreachable until a label is bound here
		return
	case "typeHalt":
		return
	}
	// generic stack effect
	var k aff
	if pc, ok := t.pops[op]; ok {
		k = affC(pc[1])
		if pc[0] != 0 {
			if val.kind != 1 {
				t.obl("peg:"+path+"/typed:count@"+op, "the count operand of "+op+" is known", propsCount, false, "the count operand is not a counter value")
				return
			}
			k = k.add(val.a.scale(pc[0]))
		}
	} else if op == "typeLoadFormatString" {
		if val.kind != 1 {
			t.obl("peg:"+path+"/typed:count@"+op, "the count operand of "+op+" is known", propsCount, false, "the count operand is not a counter value")
			return
		}
		k = val.a
	} else {
		k = affC(0)
	}
	t.need(s, k, path, op)
	push := t.pushes[op]
	if op == "typeLoadFormatString" {
		push = 1
	}
	switch op {
	case "typeJne", "typeJe":
		s.lastIsJump = true
		s.lastJump = op
		t.setH(s, s.sn.H.v.sub(k))
		s.jumpSnap = s.sn
		return
	case "typeJeDup":
		// taken: the value is kept; fall through: it is popped
		s.lastIsJump = true
		s.lastJump = op
		s.jumpSnap = s.sn
		t.setH(s, s.sn.H.v.sub(affC(1)))
		return
	case "typeDice":
		s.sn.D--
	case "typeReturn":
		t.setH(s, s.sn.H.v.sub(k))
		s.sn.dead = true
		return
	}
	t.setH(s, s.sn.H.v.sub(k).add(affC(push)))
}

func isStOp(op string) bool {
	return op == "typeStSetName" || op == "typeStModify" || op == "typeStX0" || op == "typeStX1"
}

// taken: the state on the taken branch of the jump emitted last.
func (t *typing) takenSnap(s *tstate, op string) snap {
	return s.sn
}

// joinSnap merges the state of a jump source into the current state at a label.
func (t *typing) joinSnap(cur *snap, src snap, path, what string) {
	if src.dead {
		return
	}
	if cur.dead {
		*cur = src
		return
	}
	ok := cur.B == src.B && cur.F == src.F && cur.D == src.D
	detail := ""
	if !ok {
		detail = fmt.Sprintf("open blocks/templates/dice at the jump (%d,%d,%d) and at its target (%d,%d,%d) differ", src.B, src.F, src.D, cur.B, cur.F, cur.D)
	}
	if ok && cur.H.exact && src.H.exact && !cur.H.v.eq(src.H.v) {
		ok = false
		detail = fmt.Sprintf("stack height at the jump (%s) and at its target (%s) differ", src.H, cur.H)
	}
	t.obl("peg:"+path+"/typed:bind@"+what, "a jump and its target agree on open blocks, templates, dice and stack height", propsTyped, ok, detail)
	cur.detail = cur.detail && src.detail
	if cur.H.exact && src.H.exact && !cur.H.v.eq(src.H.v) {
		return // reported above; continue with the height of the fall-through path
	}
	cur.H = joinH(cur.H, src.H)
}

func joinH(a, b hval) hval {
	if a.v.eq(b.v) {
		return hval{v: a.v, exact: a.exact && b.exact}
	}
	la, oka := a.v.lower()
	lb, okb := b.v.lower()
	if !oka || !okb {
		return hval{v: affC(-1 << 30)}
	}
	if lb < la {
		la = lb
	}
	return hval{v: affC(la)}
}

// popJmp removes the top entry of the jump stack.
func (t *typing) popJmp(s *tstate, path, what string) (jent, bool) {
	if len(s.jmp) == 0 {
		t.obl("peg:"+path+"/typed:jmpstack@"+what, "the jump-patching stack holds an entry pushed by this rule", propsTyped, false, "the rule pops a jump entry it did not push")
		return jent{}, false
	}
	t.obl("peg:"+path+"/typed:jmpstack@"+what, "the jump-patching stack holds an entry pushed by this rule", propsTyped, true, "")
	top := &s.jmp[len(s.jmp)-1]
	e := top.e
	if top.n.isConst() && top.n.c <= 1 {
		s.jmp = s.jmp[:len(s.jmp)-1]
	} else {
		top.n = top.n.sub(affC(1))
	}
	return e, true
}

// popJmpN removes n (affine) entries, binding each to the current position.
func (t *typing) bindJmpN(s *tstate, n aff, path string) {
	rest := n
	for {
		if rest.isConst() && rest.c == 0 {
			return
		}
		if len(s.jmp) == 0 {
			t.obl("peg:"+path+"/typed:jmpstack@OffsetPopAndSet", "the jump-patching stack holds the entries popped here", propsTyped, false,
				fmt.Sprintf("%s more entries are popped than this rule pushed", rest))
			return
		}
		top := &s.jmp[len(s.jmp)-1]
		e := top.e
		d := rest.sub(top.n)
		if lb, ok := d.lower(); ok && lb >= 0 {
			// the whole segment
			t.bindOne(s, e, path)
			s.jmp = s.jmp[:len(s.jmp)-1]
			rest = d
			continue
		}
		d2 := top.n.sub(rest)
		if lb, ok := d2.lower(); ok && lb >= 0 && rest.isConst() {
			t.bindOne(s, e, path)
			top.n = d2
			if top.n.isConst() && top.n.c == 0 {
				s.jmp = s.jmp[:len(s.jmp)-1]
			}
			return
		}
		t.obl("peg:"+path+"/typed:jmpstack@OffsetPopAndSet", "the jump-patching stack holds the entries popped here", propsTyped, false,
			fmt.Sprintf("cannot relate the %s entries popped to the %s entries on top of the stack", rest, top.n))
		return
	}
}

func (t *typing) bindOne(s *tstate, e jent, path string) {
	if e.label {
		t.obl("peg:"+path+"/typed:bind@OffsetPopAndSet", "the patched instruction is a jump", propsTyped, false, "OffsetPopAndSet patches an instruction that is not a jump")
		return
	}
	t.joinSnap(&s.sn, e.sn, path, "OffsetPopAndSet")
}

// ---- primitives of ParserData -----------------------------------------------------------------------------------------

func (t *typing) primitive(s *tstate, name string, args []aval, path string) (aval, bool) {
	switch name {
	case "checkStackOverflow":
		return aval{}, true
	case "WriteCode":
		if len(args) < 1 || args[0].kind != 2 {
			s.unknown = "WriteCode with a non-constant opcode at " + path
			return aval{}, true
		}
		var v aval
		if len(args) > 1 {
			v = args[1]
		}
		t.emit(s, args[0].op, v, path)
		return aval{}, true
	case "OffsetPush":
		e := jent{sn: s.sn, opID: s.lastOp, label: !s.lastIsJump}
		if s.lastIsJump {
			e.sn = s.jumpSnap
		}
		s.jmp = append(s.jmp, jseg{n: affC(1), e: e})
		return aval{}, true
	case "OffsetPopAndSet":
		if e, ok := t.popJmp(s, path, "OffsetPopAndSet"); ok {
			t.bindOne(s, e, path)
		}
		return aval{}, true
	case "OffsetPopN":
		if len(args) == 1 && args[0].kind == 1 && args[0].a.isConst() {
			for i := int64(0); i < args[0].a.c; i++ {
				t.popJmp(s, path, "OffsetPopN")
			}
		} else {
			s.unknown = "OffsetPopN with a non-constant count at " + path
		}
		return aval{}, true
	case "OffsetJmpSetX":
		t.jmpSetX(s, args, path)
		return aval{}, true
	case "CounterPush":
		s.cnt = append(s.cnt, cent{v: affC(0), h: s.sn.H, hd: s.sn.dead})
		return aval{}, true
	case "CounterAdd":
		if len(s.cnt) == 0 {
			if len(args) == 1 && args[0].kind == 1 {
				s.cntOuter = s.cntOuter.add(args[0].a)
			} else {
				s.cntOuterUnk = true
			}
			return aval{}, true
		}
		c := &s.cnt[len(s.cnt)-1]
		if len(args) == 1 && args[0].kind == 1 {
			c.v = c.v.add(args[0].a)
		} else {
			c.unk = true
		}
		return aval{}, true
	case "CounterPop":
		if len(s.cnt) == 0 {
			// a counter pushed by the caller (detailStart / detailEnd): its value is not known here
			s.cntUnder++
			s.cntOuter, s.cntOuterUnk = affC(0), false
			return aval{}, true
		}
		c := s.cnt[len(s.cnt)-1]
		s.cnt = s.cnt[:len(s.cnt)-1]
		if c.unk {
			return aval{}, true
		}
		return aval{kind: 1, a: c.v, op: "counter:" + hstr(c.h)}, true
	case "NamePush":
		s.names = s.names.add(affC(1))
		return aval{}, true
	case "NamePop":
		s.names = s.names.sub(affC(1))
		return aval{}, true
	case "LoopBegin":
		s.loops = append(s.loops, len(s.brk)<<16|len(s.cont))
		s.loopB = append(s.loopB, s.sn.B)
		s.loopF = append(s.loopF, s.sn.F)
		return aval{}, true
	case "LoopEnd":
		if len(s.loops) == 0 {
			t.obl("peg:"+path+"/typed:loop@LoopEnd", "LoopEnd closes a LoopBegin of this rule", propsTyped, false, "no LoopBegin is open")
			return aval{}, true
		}
		m := s.loops[len(s.loops)-1]
		s.loops = s.loops[:len(s.loops)-1]
		s.loopB = s.loopB[:len(s.loopB)-1]
		s.loopF = s.loopF[:len(s.loopF)-1]
		s.brk = s.brk[:minInt(m>>16, len(s.brk))]
		s.cont = s.cont[:minInt(m&0xffff, len(s.cont))]
		return aval{}, true
	case "BreakPush", "ContinuePush":
		// if loopLayer > 0 { [unwindToLoop();] AddOp(typeJmp); push }: actions call it only under loopLayer != 0
		unwinds := t.unwindsBeforeJump(name)
		t.emit(s, "typeJmp", aval{}, path)
		if unwinds && !s.jumpSnap.dead {
			// the blocks and templates opened since the loop began were closed before the jump (contract of
			// unwindToLoop, Engine A): the jump leaves with exactly the loop's own nesting
			s.jumpSnap.B, s.jumpSnap.F, s.jumpSnap.D = markLoopDepth, markLoopDepth, 0
		}
		e := []jseg{{n: affC(1), e: jent{sn: s.jumpSnap, opID: s.lastOp}}}
		if name == "BreakPush" {
			s.brk = unionSegs(s.brk, e)
		} else {
			s.cont = unionSegs(s.cont, e)
		}
		return aval{}, true
	case "BreakSet":
		// every break of the current loop lands at the current position
		if len(s.loops) > 0 {
			m := s.loops[len(s.loops)-1]
			for _, b := range s.brk[minInt(m>>16, len(s.brk)):] {
				// one obligation per class of break source (open blocks / templates at the break)
				src := b.e.sn
				what := fmt.Sprintf("BreakSet:B%d,F%d", src.B, src.F)
				if src.B == markLoopDepth {
					what = "BreakSet:unwound"
					src.B, src.F, src.D = s.loopB[len(s.loopB)-1], s.loopF[len(s.loopF)-1], s.sn.D
				}
				t.joinSnap(&s.sn, src, path, what)
			}
		}
		return aval{}, true
	case "ContinueSet":
		// every continue of the current loop lands after the instruction recorded at jmpStack[len-1-offsetB]
		if len(args) != 1 || args[0].kind != 1 || !args[0].a.isConst() {
			s.unknown = "ContinueSet with a non-constant offset at " + path
			return aval{}, true
		}
		idx := len(s.jmp) - 1 - int(args[0].a.c)
		if idx < 0 || idx >= len(s.jmp) || !s.jmp[idx].n.isConst() {
			t.obl("peg:"+path+"/typed:bind@ContinueSet", "continue lands on an instruction recorded by this rule", propsTyped, false, "no such entry on the jump stack")
			return aval{}, true
		}
		tgt := s.jmp[idx].e
		if len(s.loops) > 0 {
			m := s.loops[len(s.loops)-1]
			for _, c := range s.cont[minInt(m&0xffff, len(s.cont)):] {
				cur := tgt.sn
				src := c.e.sn
				what := fmt.Sprintf("ContinueSet:B%d,F%d", src.B, src.F)
				if src.B == markLoopDepth {
					what = "ContinueSet:unwound"
					src.B, src.F, src.D = s.loopB[len(s.loopB)-1], s.loopF[len(s.loopF)-1], cur.D
				}
				t.joinSnap(&cur, src, path, what)
			}
		}
		return aval{}, true
	case "FlagsPush":
		s.flags++
		return aval{}, true
	case "FlagsPop":
		s.flags--
		return aval{}, true
	case "CodePush":
		s.bufs = append(s.bufs, bufSave{sn: s.sn, blk: s.blk, fbl: s.fbl, jmpLen: len(s.jmp), cntLen: len(s.cnt), needH: s.needH, brk: s.brk, cont: s.cont})
		s.sn = snap{H: hval{v: affC(0), exact: true}}
		s.blk, s.fbl = nil, nil
		s.brk, s.cont = nil, nil
		return aval{}, true
	case "CodePop":
		if len(s.bufs) == 0 {
			t.obl("peg:"+path+"/typed:root@CodePop", "CodePop closes a CodePush of this rule", propsTyped, false, "no CodePush is open in this rule")
			return aval{}, true
		}
		b := s.bufs[len(s.bufs)-1]
		ok := s.sn.dead || (s.sn.B == 0 && s.sn.F == 0 && s.sn.D == 0)
		ok = ok && len(s.jmp) == b.jmpLen && len(s.cnt) <= b.cntLen
		t.obl("peg:"+path+"/typed:root@CodePop", "the nested code buffer ends balanced (no open block, template, dice, pending jump or counter)", propsTyped, ok,
			fmt.Sprintf("at the end of the nested buffer: open blocks %d, templates %d, dice %d, pending jumps %d, counters %d", s.sn.B, s.sn.F, s.sn.D, len(s.jmp)-b.jmpLen, len(s.cnt)-b.cntLen))
		escapes := len(s.brk) > 0 || len(s.cont) > 0
		if t.codePushResetsLoops() {
			// CodePush sets loopLayer to 0: a break/continue that has no loop inside the buffer fails its action
			escapes = false
		}
		t.obl("peg:"+path+"/typed:bind@buffer-escape", "no break/continue inside a nested code buffer refers to a loop outside it", propsTyped, !escapes,
			"a break or continue compiled into a nested code buffer (function / computed value body) is patched by the enclosing loop with indices of the outer buffer")
		s.bufs = s.bufs[:len(s.bufs)-1]
		s.sn, s.blk, s.fbl = b.sn, b.blk, b.fbl
		s.brk, s.cont = b.brk, b.cont
		return aval{}, true
	case "PrepareCustomDice", "ConsumeCustomDice", "tryMatchCustomDice", "ensurePendingCustomDice":
		return aval{}, true
	case "CommitCustomDice":
		t.e.Assumptions["grammar typing: CommitCustomDice emits dice.custom (a pending match exists whenever PrepareCustomDice returned true)"] = true
		t.emit(s, "typeCustomDice", aval{}, path)
		return aval{}, true
	}
	return aval{}, false
}

func hstr(h hval) string { return h.String() }

func (t *typing) jmpSetX(s *tstate, args []aval, path string) {
	if len(args) != 3 || args[0].kind != 1 || args[1].kind != 1 || args[2].kind != 3 || !args[0].a.isConst() || !args[1].a.isConst() {
		s.unknown = "OffsetJmpSetX with non-constant arguments at " + path
		return
	}
	a, b, rev := int(args[0].a.c), int(args[1].a.c), args[2].b
	ia, ib := len(s.jmp)-1-a, len(s.jmp)-1-b
	if ia < 0 || ib < 0 || !s.jmp[ia].n.isConst() || !s.jmp[ib].n.isConst() {
		t.obl("peg:"+path+"/typed:bind@OffsetJmpSetX", "OffsetJmpSetX patches entries pushed by this rule", propsTyped, false, "no such entries on the jump stack")
		return
	}
	src, ref := s.jmp[ia].e, s.jmp[ib].e
	if src.label {
		t.obl("peg:"+path+"/typed:bind@OffsetJmpSetX", "the patched instruction is a jump", propsTyped, false, "OffsetJmpSetX patches an instruction that is not a jump")
		return
	}
	if !rev {
		// lands at src + 1 + (codeIndex - ref - 1): the current position iff src is ref
		if a != b {
			t.obl("peg:"+path+"/typed:bind@OffsetJmpSetX", "a forward patch lands at the current position", propsTyped, false, "forward OffsetJmpSetX with different source and reference entries lands inside earlier code")
			return
		}
		t.joinSnap(&s.sn, src.sn, path, "OffsetJmpSetX")
		return
	}
	// rev: lands at src + 1 - (codeIndex - ref - 1); with src the instruction emitted last this is ref + 1
	if src.opID != s.lastOp {
		t.obl("peg:"+path+"/typed:bind@OffsetJmpSetX", "a backward patch is applied to the jump emitted last", propsTyped, false, "backward OffsetJmpSetX on a jump that is not the last instruction lands at an unrelated position")
		return
	}
	cur := ref.sn // the state right after the reference instruction (recorded when it was pushed)
	t.joinSnap(&cur, src.sn, path, "OffsetJmpSetX(back)")
}

// ---- interpretation of action bodies and ParserData methods -----------------------------------------------------------

type tfail struct{} // the action returned false (the element fails)

// isDataRecv: x is c.data, e, p, d ... of type *ParserData / *ParserCustomData
func (t *typing) isDataRecv(x ast.Expr) bool {
	ty := t.e.P.Info.TypeOf(x)
	if ty == nil {
		return false
	}
	s := t.e.typeStr(ty)
	return s == "*ParserData" || s == "*ParserCustomData" || s == "ParserData" || s == "ParserCustomData"
}

func (t *typing) evalExpr(s *tstate, env tenv, x ast.Expr, path string) aval {
	info := t.e.P.Info
	if tv, ok := info.Types[x]; ok && tv.Value != nil {
		switch tv.Value.Kind().String() {
		case "Int":
			if v, err := strconv.ParseInt(tv.Value.ExactString(), 10, 64); err == nil {
				// an opcode constant is an integer constant of type CodeType: keep the name
				if id, ok := x.(*ast.Ident); ok {
					if c, ok := info.Uses[id].(*types.Const); ok && t.e.typeStr(c.Type()) == "CodeType" {
						return aval{kind: 2, op: id.Name}
					}
				}
				return aval{kind: 1, a: affC(v)}
			}
		case "Bool":
			return aval{kind: 3, b: tv.Value.ExactString() == "true"}
		}
		return aval{}
	}
	switch u := x.(type) {
	case *ast.ParenExpr:
		return t.evalExpr(s, env, u.X, path)
	case *ast.Ident:
		if obj := info.Uses[u]; obj != nil {
			if v, ok := env[obj]; ok {
				return v
			}
		}
		return aval{}
	case *ast.BinaryExpr:
		a := t.evalExpr(s, env, u.X, path)
		b := t.evalExpr(s, env, u.Y, path)
		if a.kind == 1 && b.kind == 1 {
			switch u.Op {
			case token.ADD:
				return aval{kind: 1, a: a.a.add(b.a)}
			case token.SUB:
				return aval{kind: 1, a: a.a.sub(b.a)}
			case token.MUL:
				if a.a.isConst() {
					return aval{kind: 1, a: b.a.scale(a.a.c)}
				}
				if b.a.isConst() {
					return aval{kind: 1, a: a.a.scale(b.a.c)}
				}
			}
		}
		return aval{}
	case *ast.CallExpr:
		// conversions keep the value
		if tv, ok := info.Types[u.Fun]; ok && tv.IsType() && len(u.Args) == 1 {
			return t.evalExpr(s, env, u.Args[0], path)
		}
		return t.evalCall(s, env, u, path)
	case *ast.CompositeLit, *ast.TypeAssertExpr, *ast.SelectorExpr, *ast.IndexExpr, *ast.SliceExpr, *ast.UnaryExpr, *ast.BasicLit, *ast.StarExpr, *ast.FuncLit:
		// may contain calls with effects (e.g. StInfo{op, text}): evaluate sub-calls in order
		ast.Inspect(x, func(n ast.Node) bool {
			if ce, ok := n.(*ast.CallExpr); ok && n != x {
				t.evalCall(s, env, ce, path)
				return false
			}
			return true
		})
		return aval{}
	}
	return aval{}
}

// evalCall applies the abstract effect of a call; unknown calls must not touch parser data.
func (t *typing) evalCall(s *tstate, env tenv, ce *ast.CallExpr, path string) aval {
	info := t.e.P.Info
	// conversion
	if tv, ok := info.Types[ce.Fun]; ok && tv.IsType() && len(ce.Args) == 1 {
		return t.evalExpr(s, env, ce.Args[0], path)
	}
	se, isSel := ce.Fun.(*ast.SelectorExpr)
	if isSel && t.isDataRecv(se.X) {
		var args []aval
		for _, a := range ce.Args {
			args = append(args, t.evalExpr(s, env, a, path))
		}
		name := se.Sel.Name
		if v, ok := t.primitive(s, name, args, path); ok {
			return v
		}
		// a method with a body: interpret it
		var fn *types.Func
		if sel := info.Selections[se]; sel != nil {
			fn, _ = sel.Obj().(*types.Func)
		}
		fi := t.e.P.FuncByObj[fn]
		if fi == nil || fi.Decl == nil || fi.Decl.Body == nil || t.depth > 6 {
			s.unknown = "call of " + name + " at " + path + " cannot be interpreted"
			return aval{}
		}
		sub := tenv{}
		if fi.Decl.Type.Params != nil {
			i := 0
			for _, f := range fi.Decl.Type.Params.List {
				for _, n := range f.Names {
					if i < len(args) {
						sub[info.Defs[n]] = args[i]
					}
					i++
				}
			}
		}
		t.depth++
		ret, _ := t.interpBlock(s, sub, fi.Decl.Body.List, path)
		t.depth--
		return ret
	}
	// p.addErr(...): the parse fails as a whole
	if isSel && se.Sel.Name == "addErr" {
		return aval{}
	}
	// any other call: arguments may contain data calls; the callee itself must not write parser data
	for _, a := range ce.Args {
		t.evalExpr(s, env, a, path)
	}
	var callee *types.Func
	switch f := ce.Fun.(type) {
	case *ast.Ident:
		callee, _ = info.Uses[f].(*types.Func)
	case *ast.SelectorExpr:
		if sel := info.Selections[f]; sel != nil {
			callee, _ = sel.Obj().(*types.Func)
		} else {
			callee, _ = info.Uses[f.Sel].(*types.Func)
		}
	}
	if callee != nil {
		if tr := t.e.effects.Trans[callee]; tr != nil {
			for k := range tr.Writes {
				if strings.HasPrefix(k, "ParserData.") || strings.HasPrefix(k, "ParserCustomData.") {
					s.unknown = "call of " + callee.Name() + " at " + path + " writes parser data and is not modelled"
				}
			}
		}
	}
	return aval{}
}

// interpBlock runs statements; returns the value of `return x` (if any) and whether the block returned.
// A `return false` raises tfail through panic (the element fails: not part of the success effect).
func (t *typing) interpBlock(s *tstate, env tenv, stmts []ast.Stmt, path string) (aval, bool) {
	info := t.e.P.Info
	for _, st := range stmts {
		switch u := st.(type) {
		case *ast.ExprStmt:
			t.evalExpr(s, env, u.X, path)
		case *ast.AssignStmt:
			for _, l := range u.Lhs {
				t.directWrite(s, l, path)
			}
			var vals []aval
			for _, r := range u.Rhs {
				vals = append(vals, t.evalExpr(s, env, r, path))
			}
			for i, l := range u.Lhs {
				if id, ok := l.(*ast.Ident); ok && i < len(vals) {
					obj := info.Defs[id]
					if obj == nil {
						obj = info.Uses[id]
					}
					if obj != nil {
						env[obj] = vals[i]
					}
				}
			}
		case *ast.IncDecStmt:
			t.directWrite(s, u.X, path)
		case *ast.DeclStmt, *ast.EmptyStmt:
		case *ast.ReturnStmt:
			var v aval
			for _, r := range u.Results {
				v = t.evalExpr(s, env, r, path)
			}
			if len(u.Results) == 1 {
				if id, ok := u.Results[0].(*ast.Ident); ok && id.Name == "false" {
					panic(tfail{})
				}
			}
			return v, true
		case *ast.BlockStmt:
			if v, r := t.interpBlock(s, env, u.List, path); r {
				return v, true
			}
		case *ast.IfStmt:
			if u.Init != nil {
				t.interpBlock(s, env, []ast.Stmt{u.Init}, path)
			}
			t.evalExpr(s, env, u.Cond, path)
			var outs []*tstate
			var rets []bool
			var retv aval
			branch := func(body []ast.Stmt) {
				c := s.clone()
				failed := false
				var r bool
				func() {
					defer func() {
						if x := recover(); x != nil {
							if _, ok := x.(tfail); ok {
								failed = true
								return
							}
							panic(x)
						}
					}()
					retv, r = t.interpBlock(c, env, body, path)
				}()
				if !failed {
					outs = append(outs, c)
					rets = append(rets, r)
				}
			}
			branch(u.Body.List)
			switch e := u.Else.(type) {
			case *ast.BlockStmt:
				branch(e.List)
			case *ast.IfStmt:
				branch([]ast.Stmt{e})
			default:
				branch(nil)
			}
			if len(outs) == 0 {
				panic(tfail{})
			}
			// a branch that returned ends the function: the remaining statements run only for the others.
			var cont []*tstate
			var done []*tstate
			for i, o := range outs {
				if rets[i] {
					done = append(done, o)
				} else {
					cont = append(cont, o)
				}
			}
			if len(cont) == 0 {
				j := t.joinStates(done, path, "if", false)
				*s = *j
				return retv, true
			}
			if len(done) > 0 {
				// early return on one branch: run the rest on the others, then join
				rest := stmtsAfter(stmts, st)
				c := t.joinStates(cont, path, "if", false)
				t.interpBlock(c, env, rest, path)
				j := t.joinStates(append(done, c), path, "return", false)
				*s = *j
				return retv, true
			}
			j := t.joinStates(cont, path, "if", false)
			*s = *j
		case *ast.SwitchStmt:
			if u.Init != nil {
				t.interpBlock(s, env, []ast.Stmt{u.Init}, path)
			}
			if u.Tag != nil {
				t.evalExpr(s, env, u.Tag, path)
			}
			var outs []*tstate
			hasDefault := false
			for _, c := range u.Body.List {
				cc := c.(*ast.CaseClause)
				if cc.List == nil {
					hasDefault = true
				}
				o := s.clone()
				t.interpBlock(o, env, cc.Body, path)
				outs = append(outs, o)
			}
			if !hasDefault {
				outs = append(outs, s.clone())
			}
			j := t.joinStates(outs, path, "switch", false)
			*s = *j
		case *ast.ForStmt:
			t.interpFor(s, env, u, path)
		case *ast.RangeStmt:
			// ranges in actions build Go values only (no parser-data calls allowed inside)
			bad := false
			ast.Inspect(u.Body, func(n ast.Node) bool {
				if ce, ok := n.(*ast.CallExpr); ok {
					if se, ok := ce.Fun.(*ast.SelectorExpr); ok && t.isDataRecv(se.X) {
						bad = true
					}
				}
				return true
			})
			if bad {
				s.unknown = "range loop with parser-data calls at " + path
			}
		default:
			s.unknown = fmt.Sprintf("statement %T at %s is not modelled", st, path)
		}
	}
	return aval{}, false
}

func stmtsAfter(stmts []ast.Stmt, st ast.Stmt) []ast.Stmt {
	for i, x := range stmts {
		if x == st {
			return stmts[i+1:]
		}
	}
	return nil
}

// interpFor: `for i := 0; i < N; i++ { body }` where the body pops jump entries / names: applied N times.
func (t *typing) interpFor(s *tstate, env tenv, f *ast.ForStmt, path string) {
	var n aval
	if be, ok := f.Cond.(*ast.BinaryExpr); ok && be.Op == token.LSS {
		n = t.evalExpr(s, env, be.Y, path)
	}
	var calls []string
	ast.Inspect(f.Body, func(x ast.Node) bool {
		if ce, ok := x.(*ast.CallExpr); ok {
			if se, ok := ce.Fun.(*ast.SelectorExpr); ok && t.isDataRecv(se.X) {
				calls = append(calls, se.Sel.Name)
			}
		}
		return true
	})
	if len(calls) == 0 {
		return
	}
	if n.kind != 1 {
		s.unknown = "loop with an unknown trip count at " + path
		return
	}
	for _, c := range calls {
		switch c {
		case "OffsetPopAndSet":
			t.bindJmpN(s, n.a, path)
		case "NamePop":
			s.names = s.names.sub(n.a)
		default:
			if n.a.isConst() && n.a.c <= 8 {
				for i := int64(0); i < n.a.c; i++ {
					t.interpBlock(s, env, f.Body.List, path)
				}
				return
			}
			s.unknown = "loop calling " + c + " a symbolic number of times at " + path
			return
		}
	}
}

// actionBody: the statements of the closure inside call_onX_N.
func (t *typing) actionBody(fn string) []ast.Stmt {
	fi := t.e.P.Funcs["(*parser)."+fn]
	if fi == nil || fi.Decl == nil || fi.Decl.Body == nil {
		return nil
	}
	var body []ast.Stmt
	ast.Inspect(fi.Decl.Body, func(n ast.Node) bool {
		if fl, ok := n.(*ast.FuncLit); ok && body == nil {
			body = fl.Body.List
			return false
		}
		return true
	})
	return body
}

// runAction applies an action / code block / predicate; ok=false: it returned false on every path.
func (t *typing) runAction(s *tstate, fn, path string) (ok bool) {
	body := t.actionBody(fn)
	if body == nil {
		s.unknown = "action " + fn + " has no body"
		return true
	}
	ok = true
	func() {
		defer func() {
			if x := recover(); x != nil {
				if _, isFail := x.(tfail); isFail {
					ok = false
					return
				}
				panic(x)
			}
		}()
		t.interpBlock(s, tenv{}, body, path)
	}()
	return ok
}

// ---- joins ------------------------------------------------------------------------------------------------------------

func snapKey(x snap) string {
	return fmt.Sprintf("%v|%s|%d,%d,%d", x.dead, x.H, x.B, x.F, x.D)
}

// unionSegs: pending break / continue jumps are a set of source states, one per (dead, B, F, D) class; the heights of
// a class are joined to a lower bound (their number and exact heights do not matter for the bind obligations).
func unionSegs(a, b []jseg) []jseg {
	idx := map[string]int{}
	var out []jseg
	for _, l := range [][]jseg{a, b} {
		for _, j := range l {
			if j.e.sn.dead {
				continue // a break in unreachable code is never taken
			}
			// nesting depths saturate at 3 ("3 or more"): deeper nesting never matches a loop's own depth
			if j.e.sn.B > 3 {
				j.e.sn.B = 3
			}
			if j.e.sn.F > 3 {
				j.e.sn.F = 3
			}
			if j.e.sn.D > 3 {
				j.e.sn.D = 3
			}
			k := fmt.Sprintf("%v|%d,%d,%d", j.e.sn.dead, j.e.sn.B, j.e.sn.F, j.e.sn.D)
			j.e.sn.H = hval{v: affC(0)} // heights of break/continue sources are not tracked (the loop's block.pop resets the stack)
			if i, ok := idx[k]; ok {
				out[i].e.sn.detail = out[i].e.sn.detail && j.e.sn.detail
				continue
			}
			idx[k] = len(out)
			out = append(out, jseg{n: affC(1), e: j.e})
		}
	}
	sort.SliceStable(out, func(i, j int) bool {
		a, b := out[i].e.sn, out[j].e.sn
		if a.B != b.B {
			return a.B < b.B
		}
		if a.F != b.F {
			return a.F < b.F
		}
		return a.D < b.D
	})
	return out
}

func sameCents(a, b []cent) bool {
	if len(a) != len(b) {
		return false
	}
	for i := range a {
		if a[i].unk != b[i].unk || !a[i].v.eq(b[i].v) {
			return false
		}
	}
	return true
}

func sameSegs(a, b []jseg) bool {
	if len(a) != len(b) {
		return false
	}
	for i := range a {
		if !a[i].n.eq(b[i].n) || a[i].e.label != b[i].e.label {
			return false
		}
	}
	return true
}

// joinStates: the states of the alternatives that can succeed.  inexactOK: H may differ (statement rules).
func (t *typing) joinStates(in []*tstate, path, what string, inexactOK bool) *tstate {
	var live []*tstate
	for _, s := range in {
		if s.unknown == "" {
			live = append(live, s)
		}
	}
	if len(live) != len(in) {
		// one of the paths has an effect the analysis cannot determine: so has the join
		for _, s := range in {
			if s.unknown != "" {
				return s
			}
		}
	}
	if len(live) == 0 {
		return in[0]
	}
	// reference: the first reachable state
	ref := live[0]
	for _, s := range live {
		if !s.sn.dead {
			ref = s
			break
		}
	}
	out := ref.clone()
	var diffs []string
	for _, s := range live {
		if s == ref {
			continue
		}
		// requirements accumulate
		if s.needH > out.needH {
			out.needH, out.needWhy = s.needH, s.needWhy
		}
		if s.needB > out.needB {
			out.needB = s.needB
		}
		if s.needF > out.needF {
			out.needF = s.needF
		}
		if s.needD > out.needD {
			out.needD = s.needD
		}
		out.needDetail = out.needDetail || s.needDetail
		if len(s.cnt) == len(out.cnt) && s.cntUnder == out.cntUnder && len(s.cnt) > 0 && !sameCents(s.cnt, out.cnt) {
			// the alternatives count a different number of items (e.g. `()` against `(a, b, ...)`): generalise to a
			// fresh symbol when every differing component differs by the same non-negative amount
			last := len(s.cnt) - 1
			d := s.cnt[last].v.sub(out.cnt[last].v)
			dn := s.names.sub(out.names)
			okRel := sameCents(s.cnt[:last], out.cnt[:last]) && !s.cnt[last].unk && !out.cnt[last].unk
			if lb, ok := d.lower(); !ok || lb < 0 {
				okRel = false
			}
			if okRel && (dn.eq(d) || dn.eq(affC(0))) {
				m := aff{s: map[int]int64{t.fresh(): 1}}
				out.cnt = append([]cent(nil), out.cnt...)
				out.cnt[last].v = out.cnt[last].v.add(m)
				if dn.eq(d) {
					out.names = out.names.add(m)
				}
				s = s.clone()
				s.cnt[last].v = out.cnt[last].v
				s.names = out.names
			}
		}
		if !sameCents(s.cnt, out.cnt) || !s.cntOuter.eq(out.cntOuter) || s.cntOuterUnk != out.cntOuterUnk || s.cntUnder != out.cntUnder {
			diffs = append(diffs, "counters")
		}
		if !sameSegs(s.jmp, out.jmp) {
			diffs = append(diffs, "pending jumps")
		}
		if !s.names.eq(out.names) {
			diffs = append(diffs, "name stack")
		}
		if len(s.loops) != len(out.loops) || s.flags != out.flags || len(s.bufs) != len(out.bufs) {
			diffs = append(diffs, "loop/flag/buffer nesting")
		}
		if !s.st.eq(out.st) {
			// the number of st.* instructions is data dependent (lists of edits): checked per alternative (typed:st-one)
			out.st = aff{s: map[int]int64{t.fresh(): 1}}
		}
		// break / continue lists: union (order irrelevant)
		out.brk = unionSegs(out.brk, s.brk)
		out.cont = unionSegs(out.cont, s.cont)
		if s.sn.dead {
			continue
		}
		if out.sn.dead {
			out.sn = s.sn
			out.blk, out.fbl = s.blk, s.fbl
			continue
		}
		if s.sn.B != out.sn.B || s.sn.F != out.sn.F || s.sn.D != out.sn.D {
			diffs = append(diffs, fmt.Sprintf("open blocks/templates/dice (%d,%d,%d vs %d,%d,%d)", out.sn.B, out.sn.F, out.sn.D, s.sn.B, s.sn.F, s.sn.D))
		}
		if !(s.sn.H.v.eq(out.sn.H.v) && s.sn.H.exact == out.sn.H.exact) {
			if !inexactOK {
				diffs = append(diffs, fmt.Sprintf("stack height (%s vs %s)", out.sn.H, s.sn.H))
				// keep the first alternative's height: the disagreement is reported once, here
			} else {
				out.sn.H = joinH(out.sn.H, s.sn.H)
			}
		}
		out.sn.detail = out.sn.detail && s.sn.detail
	}
	if what != "" {
		detail := ""
		if len(diffs) > 0 {
			detail = "the alternatives disagree on: " + strings.Join(uniq(diffs), "; ")
		}
		t.obl("peg:"+path+"/typed:agree@"+what, "the alternatives have the same effect on the emitted code's typing state", propsTyped, len(diffs) == 0, detail)
	}
	return out
}

// ---- rules ------------------------------------------------------------------------------------------------------------

// apply the summary of a rule at a call site.
func (t *typing) applySummary(s *tstate, sum *tstate, path, rule string) {
	ren := map[int]int{}
	rn := func(a aff) aff { return a.rename(ren, t.fresh) }
	// requirements of the callee against the caller's state
	if !s.sn.dead {
		if sum.needH > 0 {
			lb := t.lowerH(s)
			if len(s.bufs) > 0 {
				t.obl("peg:"+path+"/typed:pops@"+rule, "the operand stack holds what rule "+rule+" consumes", propsTyped, lb >= sum.needH,
					fmt.Sprintf("rule %s needs %d values (%s); the stack holds %s", rule, sum.needH, sum.needWhy, s.sn.H))
			} else if sum.needH-lb > s.needH {
				s.needH = sum.needH - lb
				s.needWhy = sum.needWhy
				if len(s.needWhy) < 300 {
					s.needWhy += " (via " + rule + " at " + path + ")"
				}
			}
		}
		if sum.needD > 0 && s.sn.D < sum.needD {
			if len(s.bufs) > 0 {
				t.obl("peg:"+path+"/typed:dice@"+rule, "a dice.init is open where rule "+rule+" needs it", propsTyped, false, "no dice.init open")
			} else if sum.needD-s.sn.D > s.needD {
				s.needD = sum.needD - s.sn.D
			}
		}
		if sum.needDetail && !s.sn.detail {
			if len(s.bufs) > 0 {
				t.obl("peg:"+path+"/typed:detail@"+rule, "a mark.detail precedes what rule "+rule+" emits", propsTyped, false, "no mark.detail precedes")
			} else {
				s.needDetail = true
			}
		}
		if sum.needB > 0 || sum.needF > 0 {
			s.needB += sum.needB
			s.needF += sum.needF
		}
	}
	shiftH := func(h hval) hval {
		return hval{v: s.sn.H.v.add(rn(h.v)), exact: s.sn.H.exact && h.exact}
	}
	base := s.sn
	shiftSnap := func(x snap) snap {
		if base.dead {
			x.dead = true
			return x
		}
		nb, nf, nd := base.B+x.B, base.F+x.F, base.D+x.D
		if x.B == markLoopDepth {
			// an unwound break/continue: its nesting is the loop's, whatever the context (open dice.init states are
			// not part of the jump discipline: the VM never closes them)
			nb, nf, nd = markLoopDepth, markLoopDepth, 0
		}
		return snap{dead: x.dead, H: shiftH(x.H), B: nb, F: nf, D: nd, detail: base.detail || x.detail}
	}
	// counters
	for i := 0; i < sum.cntUnder; i++ {
		if len(s.cnt) > 0 {
			s.cnt = s.cnt[:len(s.cnt)-1]
		} else {
			s.cntUnder++
			s.cntOuter, s.cntOuterUnk = affC(0), false
		}
	}
	if len(s.cnt) > 0 {
		c := &s.cnt[len(s.cnt)-1]
		c.v = c.v.add(rn(sum.cntOuter))
		c.unk = c.unk || sum.cntOuterUnk
	} else {
		s.cntOuter = s.cntOuter.add(rn(sum.cntOuter))
		s.cntOuterUnk = s.cntOuterUnk || sum.cntOuterUnk
	}
	for _, c := range sum.cnt {
		s.cnt = append(s.cnt, cent{v: rn(c.v), unk: c.unk, h: shiftH(c.h), hd: base.dead || c.hd})
	}
	for _, j := range sum.jmp {
		s.jmp = append(s.jmp, jseg{n: rn(j.n), e: jent{sn: shiftSnap(j.e.sn), opID: j.e.opID, label: j.e.label}})
	}
	var nb, nc []jseg
	for _, j := range sum.brk {
		nb = append(nb, jseg{n: affC(1), e: jent{sn: shiftSnap(j.e.sn), opID: j.e.opID}})
	}
	for _, j := range sum.cont {
		nc = append(nc, jseg{n: affC(1), e: jent{sn: shiftSnap(j.e.sn), opID: j.e.opID}})
	}
	s.brk = unionSegs(s.brk, nb)
	s.cont = unionSegs(s.cont, nc)
	for _, b := range sum.blk {
		s.blk = append(s.blk, shiftH(b))
	}
	for _, b := range sum.fbl {
		s.fbl = append(s.fbl, shiftH(b))
	}
	s.names = s.names.add(rn(sum.names))
	s.st = s.st.add(rn(sum.st))
	s.flags += sum.flags
	if len(sum.loops) > 0 || len(sum.bufs) > 0 {
		s.unknown = "rule " + rule + " leaves a loop or code buffer open"
	}
	if sum.lastOp >= 0 {
		s.lastOp, s.lastIsJump, s.lastJump = sum.lastOp, sum.lastIsJump, sum.lastJump
	}
	if !base.dead {
		s.sn = shiftSnap(sum.sn)
	}
}

// walk interprets node n on state s; returns false when n cannot succeed (as far as known).
func (t *typing) walk(n *pegNode, path string, s *tstate) bool {
	switch n.Kind {
	case pkSeq:
		for i, k := range n.Kids {
			if !t.walk(k, fmt.Sprintf("%s.%d", path, i), s) {
				return false
			}
		}
		return true
	case pkChoice:
		var outs []*tstate
		var unk []string
		t.shadowed(n)
		for i, k := range n.Kids {
			c := s.clone()
			if t.walk(k, fmt.Sprintf("%s.%d", path, i), c) {
				if c.unknown != "" {
					unk = append(unk, c.unknown)
					continue
				}
				outs = append(outs, c)
			}
		}
		if len(outs) == 0 {
			if len(unk) > 0 {
				s.unknown = unk[0]
				return true
			}
			return false
		}
		j := t.joinStates(outs, path, "choice", t.inexact[n.Rule.Name])
		*s = *j
		return true
	case pkOpt:
		c := s.clone()
		if t.walk(n.Kids[0], path+".0", c) && c.unknown == "" {
			if t.mustOnce[n.id] {
				*s = *c
				return true
			}
			j := t.joinStates([]*tstate{s.clone(), c}, path, "option", t.inexact[n.Rule.Name])
			*s = *j
		} else if c.unknown != "" {
			s.unknown = c.unknown
		}
		return true
	case pkStar, pkPlus:
		return t.walkLoop(n, path, s)
	case pkAnd, pkNot:
		return true // skip mode: nothing is emitted
	case pkAndCode, pkNotCode:
		c := s.clone()
		ok := t.runAction(c, n.Fn, path)
		af := t.e.actionFactsOf(n.Fn)
		if n.Kind == pkAndCode && !ok {
			return false // the predicate returns false on every path (error alternative)
		}
		if af.Emits && c.unknown == "" {
			*s = *c
		}
		return true
	case pkLabeled:
		return t.walk(n.Kids[0], path, s)
	case pkAction:
		if !t.walk(n.Kids[0], path, s) {
			return false
		}
		return t.runAction(s, n.Fn, path)
	case pkCode:
		return t.runAction(s, n.Fn, path)
	case pkLit, pkClass, pkAny:
		return true
	case pkRef:
		r := t.pa.g.Rules[n.Ref]
		sum := t.summary[r]
		if sum == nil {
			return false // bottom: no known way to succeed yet
		}
		if sum.unknown != "" {
			s.unknown = sum.unknown
			return true
		}
		t.applySummary(s, sum, path, r.Name)
		return true
	}
	return true
}

// walkLoop: e* / e+.  The body's effect must not depend on the iteration: H and the enclosing counter move by a
// constant per iteration, everything else returns to its value at the head.
func (t *typing) walkLoop(n *pegNode, path string, s *tstate) bool {
	if t.atMostOnce(n) {
		// (E+)* : after E+ has consumed a maximal run, E cannot match again at that position (A_det), so the
		// group matches at most once
		c := s.clone()
		if !t.walk(n.Kids[0], path+".0", c) {
			return n.Kind == pkStar && !t.mustOnce[n.id]
		}
		if c.unknown != "" {
			s.unknown = c.unknown
			return true
		}
		if n.Kind == pkPlus || t.mustOnce[n.id] {
			*s = *c
			return true
		}
		j := t.joinStates([]*tstate{s.clone(), c}, path, "option", t.inexact[n.Rule.Name])
		*s = *j
		return true
	}
	b1 := s.clone()
	if !t.walk(n.Kids[0], path+".0", b1) {
		return n.Kind == pkStar
	}
	if b1.unknown != "" {
		s.unknown = b1.unknown
		return true
	}
	b2 := b1.clone()
	t.walk(n.Kids[0], path+".0", b2)
	// per-iteration deltas
	dH1 := b1.sn.H.v.sub(s.sn.H.v)
	dH2 := b2.sn.H.v.sub(b1.sn.H.v)
	topCnt := func(x *tstate) aff {
		if len(x.cnt) > 0 {
			return x.cnt[len(x.cnt)-1].v
		}
		return x.cntOuter
	}
	dC1 := topCnt(b1).sub(topCnt(s))
	dC2 := topCnt(b2).sub(topCnt(b1))
	dN1, dN2 := b1.names.sub(s.names), b2.names.sub(b1.names)
	dS1, dS2 := b1.st.sub(s.st), b2.st.sub(b1.st)
	var bad []string
	if !s.sn.dead && !b1.sn.dead {
		if !dH1.eq(dH2) {
			bad = append(bad, "stack height changes differently in the first and second iteration")
		}
		if b1.sn.B != s.sn.B || b1.sn.F != s.sn.F || b1.sn.D != s.sn.D {
			bad = append(bad, "an iteration leaves a block, template or dice.init open")
		}
	}
	if !dC1.eq(dC2) || len(b1.cnt) != len(s.cnt) {
		bad = append(bad, "counter changes are not the same in every iteration")
	}
	if !dN1.eq(dN2) || !dS1.eq(dS2) {
		bad = append(bad, "name stack / st instruction changes are not the same in every iteration")
	}
	if len(b1.loops) != len(s.loops) || b1.flags != s.flags || len(b1.bufs) != len(s.bufs) {
		bad = append(bad, "an iteration leaves a loop, flag frame or code buffer open")
	}
	newJ := b1.jmp[minInt(len(s.jmp), len(b1.jmp)):]
	if len(b1.jmp) < len(s.jmp) {
		bad = append(bad, "an iteration pops jump entries of the enclosing rule")
	}
	if len(newJ) > 0 && !(dH1.isConst() && dH1.c == 0) {
		bad = append(bad, "an iteration leaves pending jumps and changes the stack height")
	}
	t.obl("peg:"+path+"/typed:loop", "the repetition body has an iteration-independent effect", propsTyped, len(bad) == 0, strings.Join(bad, "; "))
	if len(bad) > 0 {
		// continue with one iteration's effect
		*s = *b1
		return true
	}
	sym := t.fresh()
	k := aff{s: map[int]int64{sym: 1}}
	times := func(d aff) aff {
		// d * n (d constant)
		if !d.isConst() {
			return aff{} // not representable: checked above for H; others rarely symbolic
		}
		return k.scale(d.c)
	}
	out := s.clone()
	if n.Kind == pkPlus {
		out = b1.clone()
	}
	if !out.sn.dead {
		if dH1.isConst() {
			out.sn.H.v = out.sn.H.v.add(times(dH1))
		} else {
			out.sn.H = hval{v: affC(0)} // unknown growth: lower bound only
			if lb, ok := s.sn.H.v.lower(); ok {
				out.sn.H.v = affC(lb)
			}
		}
		out.sn.detail = s.sn.detail && b1.sn.detail || s.sn.detail
	}
	if len(out.cnt) > 0 {
		c := &out.cnt[len(out.cnt)-1]
		c.v = c.v.add(times(dC1))
		if len(b1.cnt) > 0 && b1.cnt[len(b1.cnt)-1].unk {
			c.unk = true
		}
	} else {
		out.cntOuter = out.cntOuter.add(times(dC1))
		out.cntOuterUnk = out.cntOuterUnk || b1.cntOuterUnk
	}
	out.names = out.names.add(times(dN1))
	out.st = out.st.add(times(dS1))
	for _, j := range newJ {
		if n.Kind == pkPlus {
			break // already has one copy: add n more below
		}
		out.jmp = append(out.jmp, jseg{n: k.scale(1), e: j.e})
	}
	if n.Kind == pkPlus {
		for _, j := range newJ {
			out.jmp = append(out.jmp, jseg{n: k.scale(1), e: j.e})
		}
	}
	// break / continue jumps emitted in the body stay pending
	out.brk = unionSegs(out.brk, b1.brk)
	out.cont = unionSegs(out.cont, b1.cont)
	if b1.needH > out.needH {
		out.needH, out.needWhy = b1.needH, b1.needWhy
	}
	if b1.needD > out.needD {
		out.needD = b1.needD
	}
	out.needDetail = out.needDetail || b1.needDetail
	if b1.lastOp >= 0 {
		out.lastOp, out.lastIsJump, out.lastJump = -2, false, ""
	}
	*s = *out
	return true
}

func minInt(a, b int) int {
	if a < b {
		return a
	}
	return b
}

func summaryKey(s *tstate) string {
	if s == nil {
		return "bottom"
	}
	var sb strings.Builder
	fmt.Fprintf(&sb, "%v|%s|%d,%d,%d|%v|", s.sn.dead, s.sn.H, s.sn.B, s.sn.F, s.sn.D, s.sn.detail)
	for _, c := range s.cnt {
		fmt.Fprintf(&sb, "c%s/%v;", c.v, c.unk)
	}
	fmt.Fprintf(&sb, "|co%s/%v/%d|n%s|st%s|", s.cntOuter, s.cntOuterUnk, s.cntUnder, s.names, s.st)
	for _, j := range s.jmp {
		fmt.Fprintf(&sb, "j%s:%v:%s;", j.n, j.e.label, j.e.sn.H)
	}
	for _, j := range s.brk {
		fmt.Fprintf(&sb, "B%v,%d,%d,%d;", j.e.sn.dead, j.e.sn.B, j.e.sn.F, j.e.sn.D)
	}
	for _, j := range s.cont {
		fmt.Fprintf(&sb, "C%v,%d,%d,%d;", j.e.sn.dead, j.e.sn.B, j.e.sn.F, j.e.sn.D)
	}
	fmt.Fprintf(&sb, "|b%d c%d|need %d %d %d %d %v|%s", len(s.brk), len(s.cont), s.needH, s.needB, s.needF, s.needD, s.needDetail, s.unknown)
	return sb.String()
}

// normalise a summary: symbols are renumbered canonically so that the fixpoint can detect stability.
func (t *typing) canon(s *tstate) *tstate {
	m := map[int]int{}
	next := 0
	f := func() int { next++; return 1000000 + next }
	rn := func(a aff) aff { return a.rename(m, f) }
	o := s.clone()
	o.sn.H.v = rn(o.sn.H.v)
	for i := range o.cnt {
		o.cnt[i].v = rn(o.cnt[i].v)
		o.cnt[i].h.v = rn(o.cnt[i].h.v)
	}
	o.cntOuter = rn(o.cntOuter)
	o.names = rn(o.names)
	o.st = rn(o.st)
	for i := range o.jmp {
		o.jmp[i].n = rn(o.jmp[i].n)
		o.jmp[i].e.sn.H.v = rn(o.jmp[i].e.sn.H.v)
	}
	for i := range o.brk {
		o.brk[i].n = rn(o.brk[i].n)
		o.brk[i].e.sn.H.v = rn(o.brk[i].e.sn.H.v)
	}
	for i := range o.cont {
		o.cont[i].n = rn(o.cont[i].n)
		o.cont[i].e.sn.H.v = rn(o.cont[i].e.sn.H.v)
	}
	for i := range o.blk {
		o.blk[i].v = rn(o.blk[i].v)
	}
	for i := range o.fbl {
		o.fbl[i].v = rn(o.fbl[i].v)
	}
	// statement rules: only a lower bound of the height is part of the contract
	return o
}

func (e *Engine) addPEGTyping(pa *pegAnalysis) {
	t := &typing{e: e, pa: pa, summary: map[*pegRule]*tstate{}, inexact: map[string]bool{}, viol: map[string]string{}, seen: map[string]string{}, props: map[string][]string{}}
	if err := t.loadTables(); err != nil {
		e.frameObl("peg:typing/tables", []string{"C08"}, false, "", "the opcode stack-effect tables are read from specPops/specPushes/specNeedsDetail/specNeedsDice", err.Error())
		return
	}
	e.frameObl("peg:typing/tables", []string{"C08"}, true, "", fmt.Sprintf("the opcode stack-effect tables are read from specPops/specPushes/specNeedsDetail/specNeedsDice (%d opcodes pop, %d push)", len(t.pops), len(t.pushes)), "")
	// statement rules (alternatives may leave different numbers of values: only a lower bound is guaranteed)
	for _, name := range e.pegStatementRules() {
		t.inexact[name] = true
	}
	// fixpoint over rule summaries
	for round := 0; round < 40; round++ {
		changed := false
		for _, r := range pa.g.Rules {
			s := newTState()
			if os.Getenv("DSVC_PEG_DEBUG") != "" {
				fmt.Fprintf(os.Stderr, "TYPING round %d rule %s\n", round, r.Name)
			}
			ok := t.walk(r.Expr, r.Name, s)
			var ns *tstate
			if ok {
				ns = t.canon(s)
				if t.inexact[r.Name] && !ns.sn.dead {
					// contract of a statement rule: H >= lower bound
					if lb, okl := ns.sn.H.v.lower(); okl {
						ns.sn.H = hval{v: affC(lb)}
					}
				}
			}
			if summaryKey(ns) != summaryKey(t.summary[r]) {
				if os.Getenv("DSVC_PEG_DEBUG") != "" && round > 6 {
					fmt.Fprintf(os.Stderr, "TYPING-CHANGE round %d rule %s: %s -> %s\n", round, r.Name, summaryKey(t.summary[r]), summaryKey(ns))
				}
				t.summary[r] = ns
				changed = true
			}
		}
		if !changed {
			break
		}
		if round == 39 {
			e.frameObl("peg:typing/fixpoint", []string{"C08"}, false, "", "rule summaries reach a fixpoint", "no fixpoint after 40 rounds")
		}
	}
	// report pass: rules that run in action mode (rules used only inside look-ahead never emit)
	act := map[*pegRule]bool{}
	var visitN func(n *pegNode)
	var visitR func(r *pegRule)
	visitN = func(n *pegNode) {
		switch n.Kind {
		case pkAnd, pkNot:
			return
		case pkRef:
			visitR(pa.g.Rules[n.Ref])
			return
		}
		for _, k := range n.Kids {
			visitN(k)
		}
	}
	visitR = func(r *pegRule) {
		if act[r] {
			return
		}
		act[r] = true
		visitN(r.Expr)
	}
	for _, name := range []string{"dicescript", "exprRoot"} {
		if r := pa.g.ByName[name]; r != nil {
			visitR(r)
		}
	}
	t.report = true
	for _, r := range pa.g.Rules {
		if !act[r] {
			continue
		}
		s := newTState()
		ok := t.walk(r.Expr, r.Name, s)
		if ok && s.unknown != "" {
			t.obl("peg:"+r.Name+"/typed:supported", "the effect of rule "+r.Name+" can be determined", propsTyped, false, s.unknown)
		}
	}
	// roots: the start rule begins on an empty stack with nothing open and must end balanced
	if start := pa.g.ByName["dicescript"]; start != nil {
		s := t.summary[start]
		if s == nil || s.unknown != "" {
			why := "the start rule has no summary"
			if s != nil {
				why = s.unknown
			}
			t.obl("peg:dicescript/typed:root", "the program as a whole is well-typed from an empty stack", propsTyped, false, why)
		} else {
			var bad []string
			if s.needH > 0 {
				bad = append(bad, fmt.Sprintf("some instruction needs %d operands below the start of the program: %s", s.needH, s.needWhy))
			}
			if s.needD > 0 {
				bad = append(bad, "a dice instruction without an open dice.init")
			}
			if s.needDetail {
				bad = append(bad, "an annotating instruction without a preceding mark.detail")
			}
			if s.needB > 0 || s.needF > 0 {
				bad = append(bad, "a block pop without a block push")
			}
			if !s.sn.dead && (s.sn.B != 0 || s.sn.F != 0 || s.sn.D != 0) {
				bad = append(bad, fmt.Sprintf("at halt: %d blocks, %d templates, %d dice.init open", s.sn.B, s.sn.F, s.sn.D))
			}
			// pending break/continue jumps are infeasible at the root: their actions fail when loopLayer == 0
			if len(s.jmp) != 0 || len(s.cnt) != 0 || s.cntUnder != 0 || !s.names.eq(affC(0)) || s.flags != 0 {
				bad = append(bad, fmt.Sprintf("at halt: %d pending jumps, %d counters, names %s, %d breaks, %d continues, flag frames %d", len(s.jmp), len(s.cnt), s.names, len(s.brk), len(s.cont), s.flags))
			}
			t.obl("peg:dicescript/typed:root", "the program as a whole is well-typed from an empty stack and ends balanced", propsTyped, len(bad) == 0, strings.Join(bad, "; "))
		}
	}
	// C18: each alternative of an st edit emits exactly one st.* instruction
	for _, name := range []string{"st_assign", "st_modify_lead"} {
		r := pa.g.ByName[name]
		if r == nil {
			continue
		}
		top := r.Expr
		for top.Kind == pkLabeled || top.Kind == pkAction {
			top = top.Kids[0]
		}
		if top.Kind != pkChoice {
			continue
		}
		for i, k := range top.Kids {
			s := newTState()
			p := fmt.Sprintf("%s.%d", name, i)
			t.report = false
			ok := t.walk(k, p, s)
			t.report = true
			good := ok && s.unknown == "" && s.st.eq(affC(1))
			detail := ""
			if !good {
				detail = fmt.Sprintf("alternative %d of %s emits %s st.* instructions (%s)", i, name, s.st, s.unknown)
			}
			t.obl("peg:"+p+"/typed:st-one", "the alternative emits exactly one st.* instruction", propsSt, good, detail)
		}
	}
	var names []string
	for n := range t.seen {
		names = append(names, n)
	}
	sort.Strings(names)
	for _, n := range names {
		detail, bad := t.viol[n]
		e.frameObl(n, t.props[n], !bad, "", t.seen[n], detail)
	}
	if nn := len(names); nn == 0 {
		e.frameObl("peg:typing/nonempty", []string{"C08"}, false, "", "the typing pass generates obligations", "no obligation generated")
	}
}

// pegStatementRules: the names listed in the contracts file (`var pegStatementRules = []string{...}`).
func (e *Engine) pegStatementRules() []string {
	var out []string
	for v, lit := range e.globalsInit {
		if v.Name() != "pegStatementRules" {
			continue
		}
		for _, el := range lit.Elts {
			if bl, ok := el.(*ast.BasicLit); ok {
				if s, err := strconv.Unquote(bl.Value); err == nil {
					out = append(out, s)
				}
			}
		}
	}
	return out
}

func unwrapPeg(n *pegNode) *pegNode {
	for n.Kind == pkLabeled || n.Kind == pkAction {
		n = n.Kids[0]
	}
	return n
}

// atMostOnce: n = K* or K+ where K (through labels, actions and one rule reference) is a greedy E+.
func (t *typing) atMostOnce(n *pegNode) bool {
	k := unwrapPeg(n.Kids[0])
	if k.Kind == pkRef {
		k = unwrapPeg(t.pa.g.Rules[k.Ref].Expr)
	}
	return k.Kind == pkPlus
}

// flatLeaves: the elements of n in matching order, looking through sequences, labels and actions.
func flatLeaves(n *pegNode, out *[]*pegNode) {
	n = unwrapPeg(n)
	if n.Kind == pkSeq {
		for _, k := range n.Kids {
			flatLeaves(k, out)
		}
		return
	}
	*out = append(*out, n)
}

func (t *typing) flatStrip(leaves []*pegNode, skip *pegNode) string {
	var parts []string
	for _, k := range leaves {
		if k == skip {
			continue
		}
		if s := t.pa.strip(k); s != "" {
			parts = append(parts, s)
		}
	}
	return strings.Join(parts, " ")
}

// shadowed: ordered choice.  If alternative i without one of its optional elements matches exactly what an earlier
// alternative matches, the earlier alternative wins whenever that element is empty: in alternative i it is not empty.
func (t *typing) shadowed(ch *pegNode) {
	if t.mustOnce == nil {
		t.mustOnce = map[int]bool{}
	}
	var flat [][]*pegNode
	for _, alt := range ch.Kids {
		var l []*pegNode
		flatLeaves(alt, &l)
		flat = append(flat, l)
	}
	for i := range ch.Kids {
		for _, e := range flat[i] {
			if e.Kind != pkStar && e.Kind != pkOpt {
				continue
			}
			if _, done := t.mustOnce[e.id]; done {
				continue
			}
			without := t.flatStrip(flat[i], e)
			t.mustOnce[e.id] = false
			for j := 0; j < i; j++ {
				if t.flatStrip(flat[j], nil) == without {
					t.mustOnce[e.id] = true
				}
			}
		}
	}
}

// markLoopDepth: nesting of a break/continue jump that unwound to its loop (equal to the loop's own nesting, whatever it is)
const markLoopDepth = -777

// unwindsBeforeJump: the body of BreakPush / ContinuePush calls unwindToLoop before it emits the jump.
func (t *typing) unwindsBeforeJump(name string) bool {
	fi := t.e.P.Funcs["(*ParserData)."+name]
	if fi == nil || fi.Decl == nil || fi.Decl.Body == nil {
		return false
	}
	seenUnwind, ok := false, false
	// calls in source order, looking through ParserData helpers that are not themselves the primitives looked for
	// (an `emitLoopJmp` extracted from BreakPush and ContinuePush is followed into)
	var scan func(body ast.Node, depth int)
	scan = func(body ast.Node, depth int) {
		ast.Inspect(body, func(n ast.Node) bool {
			ce, isCall := n.(*ast.CallExpr)
			if !isCall {
				return true
			}
			se, isSel := ce.Fun.(*ast.SelectorExpr)
			if !isSel {
				return true
			}
			switch se.Sel.Name {
			case "unwindToLoop":
				seenUnwind = true
			case "AddOp":
				if len(ce.Args) == 1 {
					if id, isID := ce.Args[0].(*ast.Ident); isID && id.Name == "typeJmp" && seenUnwind {
						ok = true
					}
				}
			default:
				if h := t.e.P.Funcs["(*ParserData)."+se.Sel.Name]; h != nil && h.Decl != nil && h.Decl.Body != nil && depth < 3 {
					scan(h.Decl.Body, depth+1)
				}
			}
			return true
		})
	}
	scan(fi.Decl.Body, 0)
	if ok {
		t.e.Assumptions["grammar typing: unwindToLoop closes exactly the blocks and templates opened since LoopBegin (its Engine A contract) and blockDepth/fstrDepth count the open block instructions of the current buffer (AddOp is the only emitter of block instructions besides unwindToLoop)"] = true
	}
	return ok
}

// codePushResetsLoops: CodePush assigns loopLayer = 0 (a nested code buffer starts outside every loop).
func (t *typing) codePushResetsLoops() bool {
	fi := t.e.P.Funcs["(*ParserData).CodePush"]
	if fi == nil || fi.Decl == nil || fi.Decl.Body == nil {
		return false
	}
	ok := false
	ast.Inspect(fi.Decl.Body, func(n ast.Node) bool {
		if as, isAs := n.(*ast.AssignStmt); isAs && len(as.Lhs) == 1 && len(as.Rhs) == 1 {
			if se, isSel := as.Lhs[0].(*ast.SelectorExpr); isSel && se.Sel.Name == "loopLayer" {
				if bl, isLit := as.Rhs[0].(*ast.BasicLit); isLit && bl.Value == "0" {
					ok = true
				}
			}
		}
		return true
	})
	return ok
}

// directWrite: an action (not a ParserData method) that assigns a field of the parser data directly bypasses the
// helpers whose effect the analysis knows: its effect is unknown.  Configuration flags are exempt (no typing effect).
func (t *typing) directWrite(s *tstate, lhs ast.Expr, path string) {
	if t.depth > 0 {
		return // inside a ParserData method: its effect is modelled as a primitive or by its calls
	}
	x := lhs
	viaConfig := false
	for {
		switch u := x.(type) {
		case *ast.SelectorExpr:
			if u.Sel.Name == "Config" {
				viaConfig = true
			}
			if t.isDataRecv(u.X) {
				if !viaConfig && u.Sel.Name != "Config" {
					s.unknown = "the action at " + path + " assigns parser data field " + u.Sel.Name + " directly (not through a ParserData helper)"
				}
				return
			}
			x = u.X
		case *ast.IndexExpr:
			x = u.X
		case *ast.StarExpr:
			x = u.X
		case *ast.ParenExpr:
			x = u.X
		default:
			return
		}
	}
}
