package vc

import (
	"fmt"
	"os"
	"sort"
	"strings"
)

// Failure atomicity of grammar rules (C03 / C08): when a sequence fails, pigeon restores the text position but not
// the parser data, so code emitted by earlier elements of the sequence stays in the buffer ("stale code").  The rule
// contract `!ok ==> parser data unchanged` is decided structurally:
//
//   an element of a sequence that CAN FAIL must not be preceded (since the nearest enclosing choice / repetition /
//   option alternative began) by an element that MAY EMIT, unless a look-ahead guard `&X` that was evaluated at the
//   same position guarantees that the element matches (assumption A_det: matching is a function of position and
//   flags and is the same in look-ahead and in the real run; a flag write between guard and use voids the guard).
//
// Elements that record a parse error when they fail (p.addErr) abort the whole parse, so stale code is never run.

type atomViolation struct {
	Rule string
	Path string
	What string
}

type atomCtx struct {
	guard []string // code-stripped texts the upcoming elements are guaranteed to match, in order
}

type atomState struct {
	pa        *pegAnalysis
	viol      map[string]*atomViolation // by node path
	checked   map[string]bool           // node paths that were analysed (obligation exists)
	memo      map[string]bool           // rule|guard contexts done
	guardUsed map[string]bool
	matched   int // number of elements matched against a look-ahead guard so far (see walk)
}

func guardKey(g []string) string { return strings.Join(g, "\x00") }

// flatten a guard expression into the list of stripped items it matches in order.
func (pa *pegAnalysis) guardItems(n *pegNode) []string {
	switch n.Kind {
	case pkSeq:
		var out []string
		for _, k := range n.Kids {
			out = append(out, pa.guardItems(k)...)
		}
		return out
	case pkLabeled, pkAction:
		return pa.guardItems(n.Kids[0])
	case pkCode:
		return nil
	}
	s := pa.strip(n)
	if s == "" {
		return nil
	}
	return []string{s}
}

// expandRefItems: the items of a rule reference (one level), used when a guard names a rule but the guarded text
// spells the rule's body out (or the other way round).
func (pa *pegAnalysis) refItems(n *pegNode) []string {
	if n.Kind == pkRef {
		return pa.guardItems(pa.g.Rules[n.Ref].Expr)
	}
	return nil
}

func (as *atomState) report(n *pegNode, path, what string) {
	if _, ok := as.viol[path]; !ok {
		as.viol[path] = &atomViolation{Rule: n.Rule.Name, Path: path, What: what + ": element " + as.pa.strip(n)}
	}
}

// consume tries to match element n against the front of the guard.  It returns the remaining guard and whether n is
// guaranteed to succeed.
func (as *atomState) consume(guard []string, n *pegNode) (rest []string, guaranteed bool, descend bool) {
	pa := as.pa
	if len(guard) == 0 {
		return nil, false, false
	}
	s := pa.strip(n)
	if s == guard[0] {
		return guard[1:], true, false
	}
	// the guard names a rule whose body is spelt out here: expand the guard's first item if it is a rule reference
	if strings.HasPrefix(guard[0], "<") && strings.HasSuffix(guard[0], ">") {
		if r := pa.g.ByName[strings.Trim(guard[0], "<>")]; r != nil {
			items := pa.guardItems(r.Expr)
			if len(items) > 0 && !(len(items) == 1 && items[0] == guard[0]) {
				ng := append(append([]string{}, items...), guard[1:]...)
				return as.consume(ng, n)
			}
		}
	}
	// the element is a rule (or wrapper) whose body starts with the guarded items: descend with the guard
	switch n.Kind {
	case pkRef, pkSeq, pkLabeled, pkAction:
		return guard, false, true
	}
	return nil, false, false
}

// walk analyses node n.  emitted: code may have been emitted since the nearest enclosing catch point.
// guaranteed: n is known to succeed.  guard: pending look-ahead guarantee for upcoming elements.
// It returns whether emission may have happened after n and the remaining guard.
func (as *atomState) walk(n *pegNode, path string, emitted bool, guaranteed bool, guard []string) (bool, []string) {
	pa := as.pa
	switch n.Kind {
	case pkSeq:
		em := emitted
		g := guard
		for i, k := range n.Kids {
			p := fmt.Sprintf("%s.%d", path, i)
			kg := guaranteed
			descendGuard := []string(nil)
			// a look-ahead guard for what follows
			if k.Kind == pkAnd {
				g = pa.guardItems(k.Kids[0])
				as.checked[p] = true
				continue
			}
			if !kg && len(g) > 0 {
				if pa.isEpsilon(k) {
					// state code between guard and use: a flag write voids the guard (matching depends on the flags)
					if as.writesFlags(k) {
						g = nil
					}
				} else {
					rest, ok, descend := as.consume(g, k)
					if ok {
						as.matched++
						kg = true
						g = rest
					} else if descend {
						descendGuard = g
						g = nil
					} else {
						g = nil
					}
				}
			}
			if em && !kg && pa.nodeCanFail(k) && !as.failureAborts(k) {
				if len(descendGuard) > 0 {
					// decided inside: the guard may cover the fallible prefix of k
				} else {
					as.report(k, p, "can fail after code was emitted earlier in the sequence")
				}
			}
			as.checked[p] = true
			var kem bool
			hadGuard := len(g) > 0
			matchedBefore := as.matched
			kem, rest2 := as.walk(k, p, em, kg, descendGuard)
			if len(descendGuard) > 0 && as.matched == matchedBefore && em && !kg && pa.nodeCanFail(k) && !as.failureAborts(k) {
				// the look-ahead was handed down into k but nothing inside k matched it: k is not covered by the guard
				// (a guard that drifted away from the body it protects), so its failure after emission is not excluded
				as.report(k, p, "can fail after code was emitted earlier in the sequence (the look-ahead guard does not match this element)")
			}
			if len(descendGuard) > 0 {
				g = rest2
				// whatever of k was not covered by the guard and can fail after emission was reported inside
			} else if !hadGuard && (k.Kind == pkSeq || k.Kind == pkAction || k.Kind == pkLabeled) {
				// a look-ahead guard set at the end of a nested group (pigeon groups `a b {code} c` as
				// seq[action(seq[a b]) c]) still holds for the elements that follow the group
				g = rest2
			}
			if kem {
				em = true
			}
		}
		return em, g
	case pkChoice:
		any := false
		for i, k := range n.Kids {
			p := fmt.Sprintf("%s.%d", path, i)
			kg := guaranteed && i == len(n.Kids)-1
			// an alternative is its own catch point for what it emits itself
			kem, _ := as.walk(k, p, false, kg, nil)
			if kem {
				any = true
			}
			as.checked[p] = true
		}
		return emitted || any, nil
	case pkStar, pkPlus, pkOpt:
		kem, _ := as.walk(n.Kids[0], path+".0", false, false, nil)
		return emitted || kem, nil
	case pkAnd, pkNot:
		return emitted, guard
	case pkAndCode, pkNotCode:
		return emitted, guard
	case pkLabeled:
		return as.walk(n.Kids[0], path, emitted, guaranteed, guard)
	case pkAction:
		em, g := as.walk(n.Kids[0], path, emitted, guaranteed, guard)
		if pa.e.actionFactsOf(n.Fn).Emits {
			em = true
		}
		return em, g
	case pkCode:
		return emitted || pa.e.actionFactsOf(n.Fn).Emits, guard
	case pkRef:
		r := pa.g.Rules[n.Ref]
		as.visitRule(r, guaranteed, guard)
		rest := guard
		if len(guard) > 0 {
			// how much of the guard the rule body consumes: recompute on a scratch walk of the body
			_, rest = as.walkQuiet(r.Expr, guard)
		}
		return emitted || pa.emits[r], rest
	}
	return emitted, guard
}

// walkQuiet threads a guard through a rule body without reporting (to find out what remains of the guard).
func (as *atomState) walkQuiet(n *pegNode, guard []string) (bool, []string) {
	saveV, saveC := as.viol, as.checked
	as.viol, as.checked = map[string]*atomViolation{}, map[string]bool{}
	em, rest := as.walk(n, "quiet", false, false, guard)
	as.viol, as.checked = saveV, saveC
	return em, rest
}

func (as *atomState) visitRule(r *pegRule, guaranteed bool, guard []string) {
	key := fmt.Sprintf("%s|%v|%s", r.Name, guaranteed, guardKey(guard))
	if as.memo[key] {
		return
	}
	as.memo[key] = true
	as.walk(r.Expr, r.Name, false, guaranteed, guard)
}

func (as *atomState) writesFlags(n *pegNode) bool {
	pa := as.pa
	switch n.Kind {
	case pkCode, pkAction, pkAndCode:
		return len(pa.e.actionFactsOf(n.Fn).FlagWrites) > 0
	case pkRef:
		return as.writesFlags(pa.g.Rules[n.Ref].Expr)
	}
	for _, k := range n.Kids {
		if as.writesFlags(k) {
			return true
		}
	}
	return false
}

// failureAborts: when n fails, a parse error has been recorded (the alternative that fails last calls p.addErr),
// so the whole parse fails and stale code is never run.
func (as *atomState) failureAborts(n *pegNode) bool {
	pa := as.pa
	switch n.Kind {
	case pkAndCode:
		f := pa.e.actionFactsOf(n.Fn)
		return f.Aborts && f.ReturnsFalse
	case pkChoice:
		// fails only if the last alternative fails
		return as.failureAborts(n.Kids[len(n.Kids)-1])
	case pkSeq:
		// a sequence consisting of a single aborting predicate
		if len(n.Kids) == 1 {
			return as.failureAborts(n.Kids[0])
		}
	case pkLabeled, pkAction:
		return as.failureAborts(n.Kids[0])
	case pkRef:
		return as.failureAborts(pa.g.Rules[n.Ref].Expr)
	}
	return false
}

// addPEGAtomicity generates one obligation per analysed sequence element / alternative.
func (e *Engine) addPEGAtomicity(pa *pegAnalysis) {
	as := &atomState{pa: pa, viol: map[string]*atomViolation{}, checked: map[string]bool{}, memo: map[string]bool{}}
	// entry points: the start rule and the rule used by CustomDiceStream.ReadExpr
	for _, name := range []string{"dicescript", "exprRoot"} {
		if r := pa.g.ByName[name]; r != nil {
			as.visitRule(r, false, nil)
		}
	}
	var paths []string
	for p := range as.checked {
		paths = append(paths, p)
	}
	sort.Strings(paths)
	if os.Getenv("DSVC_PEG_DEBUG") != "" {
		for _, p := range paths {
			if v := as.viol[p]; v != nil {
				fmt.Fprintf(os.Stderr, "ATOM %s: %s\n", p, v.What)
			}
		}
	}
	first := len(e.Obls)
	for _, p := range paths {
		v := as.viol[p]
		ok := v == nil
		detail := ""
		if v != nil {
			detail = v.What
		}
		e.frameObl("peg:"+p+"/atomic", []string{"C03", "C08"}, ok, "",
			"grammar element "+p+" cannot fail after code has been emitted in its sequence (failure atomicity: text given back contributes no code)", detail)
	}
	e.decidePegViolations(pa, e.Obls[first:], func(o *Obligation) string {
		return strings.TrimSuffix(strings.TrimPrefix(o.Name, "peg:"), "/atomic")
	})
}
