package vc

// AddStructural adds obligations that are decided by evaluation over the typed AST (table alignment,
// opcode coverage, frame/effect obligations).  See structural checks in frame_obls.go.
func (e *Engine) AddStructural() {
	e.addFrameObligations()
}
