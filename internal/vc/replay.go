package vc

import (
	"encoding/json"
	"fmt"
	"go/types"
	"os"
	"os/exec"
	"path/filepath"
	"regexp"
	"strings"
)

type ReplayResult struct {
	Confirmed bool
	Log       string
	Source    string
}

// parseGetValue extracts name -> literal from a z3/cvc5 (get-value ...) answer.
func parseGetValue(out string) map[string]string {
	m := map[string]string{}
	re := regexp.MustCompile(`\(\|?([^\s|()]+)\|?\s+(\(-\s*\d+\)|-?\d+|true|false)\)`)
	for _, mm := range re.FindAllStringSubmatch(out, -1) {
		v := mm[2]
		if strings.HasPrefix(v, "(-") {
			v = "-" + strings.TrimSpace(strings.Trim(v[2:], "()"))
		}
		m[mm[1]] = v
	}
	return m
}

// tryReplay builds and runs an in-package Go test (injected with -overlay) that calls the real function
// with the model's argument values.  Supported: functions whose parameters are integers, booleans,
// *rand.PCGSource (a seeded source; several seeds are tried) and nil-able pointers the model sets to nil.
func (e *Engine) tryReplay(o *Obligation, model string) *ReplayResult {
	fi := e.P.Funcs[o.Func]
	if fi == nil || fi.Obj == nil || len(o.ModelVars) == 0 {
		return nil
	}
	vals := parseGetValue(model)
	sig := fi.Obj.Type().(*types.Signature)
	if sig.Recv() != nil {
		return nil
	}
	var args []string
	needRand := false
	for i := 0; i < sig.Params().Len(); i++ {
		p := sig.Params().At(i)
		t := p.Type()
		var lit string
		// find the model value: ModelVars are keyed by parameter name; the term's printed name is the SMT symbol
		tm := o.ModelVars[p.Name()]
		sym := ""
		if tm != nil {
			sym = strings.Trim(tm.Op, "|")
		}
		switch u := t.Underlying().(type) {
		case *types.Basic:
			switch {
			case u.Info()&types.IsInteger != 0:
				v, ok := vals[sym]
				if !ok {
					v = "0"
				}
				lit = fmt.Sprintf("%s(%s)", e.typeStr(t), v)
			case u.Info()&types.IsBoolean != 0:
				v, ok := vals[sym]
				if !ok {
					v = "false"
				}
				lit = v
			default:
				return nil
			}
		case *types.Pointer:
			if strings.HasSuffix(e.typeStr(t), "rand.PCGSource") {
				if v, ok := vals[sym]; ok && v == "0" {
					lit = "nil"
				} else {
					lit = "src"
					needRand = true
				}
			} else if v, ok := vals[sym]; ok && v == "0" {
				lit = "nil"
			} else {
				return nil
			}
		default:
			return nil
		}
		args = append(args, lit)
	}
	// the clause to evaluate (postconditions only)
	clauseGo := ""
	if o.Kind == "post" || o.Kind == "goal" {
		con := e.P.CF.Contracts[o.Func]
		if con != nil {
			var ord int
			fmt.Sscanf(strings.SplitN(o.Name, "/"+o.Kind+":", 2)[1], "%d@", &ord)
			list := con.Ensures
			if o.Kind == "goal" {
				list = con.Goals
			}
			for _, cl := range list {
				if cl.Ord == ord {
					clauseGo = cl.GoText
				}
			}
		}
	}
	var res []string
	for i := 0; i < sig.Results().Len(); i++ {
		res = append(res, fmt.Sprintf("result%d", i))
	}
	var sb strings.Builder
	sb.WriteString("package dicescript\n\nimport (\n\t\"fmt\"\n\t\"testing\"\n")
	if needRand {
		sb.WriteString("\t\"golang.org/x/exp/rand\"\n")
	}
	if strings.Contains(clauseGo, "math.") {
		sb.WriteString("\t\"math\"\n")
	}
	sb.WriteString(")\n\n")
	sb.WriteString("// replay of obligation " + o.Name + "\n")
	sb.WriteString("func TestDsvcReplay(t *testing.T) {\n")
	sb.WriteString("\tfor seed := uint64(1); seed <= 200; seed++ {\n\t\tfunc() {\n")
	sb.WriteString("\t\t\tdefer func() {\n\t\t\t\tif r := recover(); r != nil {\n\t\t\t\t\tfmt.Println(\"REPLAY-PANIC:\", seed, r)\n\t\t\t\t}\n\t\t\t}()\n")
	if needRand {
		sb.WriteString("\t\t\tsrc := &rand.PCGSource{}\n\t\t\tsrc.Seed(seed)\n")
	}
	for i := 0; i < sig.Params().Len(); i++ {
		p := sig.Params().At(i)
		if p.Name() != "" && p.Name() != "_" && !(needRand && args[i] == "src" && p.Name() == "src") {
			fmt.Fprintf(&sb, "\t\t\t%s := %s\n\t\t\t_ = %s\n", p.Name(), args[i], p.Name())
		}
	}
	call := fi.Decl.Name.Name + "(" + strings.Join(paramNames(sig, args), ", ") + ")"
	if len(res) > 0 {
		fmt.Fprintf(&sb, "\t\t\t%s := %s\n", strings.Join(res, ", "), call)
		for _, r := range res {
			fmt.Fprintf(&sb, "\t\t\t_ = %s\n", r)
		}
		if len(res) == 1 {
			sb.WriteString("\t\t\tresult := result0\n\t\t\t_ = result\n")
		}
	} else {
		fmt.Fprintf(&sb, "\t\t\t%s\n", call)
	}
	if clauseGo != "" {
		fmt.Fprintf(&sb, "\t\t\tif !(%s) {\n\t\t\t\tfmt.Println(\"REPLAY-CLAUSE-FALSE:\", seed, %s)\n\t\t\t}\n", clauseGo, strings.Join(append(res, "0"), ", "))
	}
	sb.WriteString("\t\t}()\n\t}\n}\n")
	src := sb.String()
	dir, err := os.MkdirTemp("", "dsvc-replay-")
	if err != nil {
		return nil
	}
	defer os.RemoveAll(dir)
	tf := filepath.Join(dir, "zz_dsvc_replay_test.go")
	os.WriteFile(tf, []byte(src), 0o644)
	ov := map[string]map[string]string{"Replace": {filepath.Join(RepoDir, "zz_dsvc_replay_test.go"): tf}}
	ob, _ := json.Marshal(ov)
	of := filepath.Join(dir, "ov.json")
	os.WriteFile(of, ob, 0o644)
	cmd := exec.Command("go", "test", "-overlay", of, "-tags", "verif", "-vet=off", "-count=1", "-v", "-timeout", "60s", "-run", "TestDsvcReplay$", ".")
	cmd.Dir = RepoDir
	cmd.Env = append(os.Environ(), "GOFLAGS=-mod=mod", "GOPROXY=off", "GOSUMDB=off", "GOTOOLCHAIN=local")
	out, _ := cmd.CombinedOutput()
	txt := string(out)
	var lines []string
	for _, l := range strings.Split(txt, "\n") {
		if strings.HasPrefix(l, "REPLAY-") {
			lines = append(lines, l)
			if len(lines) >= 5 {
				break
			}
		}
	}
	confirmed := false
	switch o.Kind {
	case "post", "goal":
		confirmed = strings.Contains(txt, "REPLAY-CLAUSE-FALSE:")
	case "index", "nil", "slice", "div0", "typeassert", "makeslice", "panic", "nilmap", "nilfunc":
		confirmed = strings.Contains(txt, "REPLAY-PANIC:")
	}
	log := strings.Join(lines, "\n")
	if log == "" {
		log = firstLines(txt, 10)
	}
	return &ReplayResult{Confirmed: confirmed, Log: "args: " + strings.Join(args, ", ") + "\n" + log, Source: src}
}

func paramNames(sig *types.Signature, args []string) []string {
	var out []string
	for i := 0; i < sig.Params().Len(); i++ {
		p := sig.Params().At(i)
		if p.Name() != "" && p.Name() != "_" {
			out = append(out, p.Name())
		} else {
			out = append(out, args[i])
		}
	}
	return out
}
