package main

import (
	"flag"
	"fmt"
	"os"
	"sort"
	"strings"
	"time"

	"dsvc/internal/vc"
)

func main() {
	if len(os.Args) < 2 {
		fmt.Fprintln(os.Stderr, "usage: dsvc <check|debug|list> ...")
		os.Exit(2)
	}
	switch os.Args[1] {
	case "debug":
		debugCmd(os.Args[2:])
	case "check":
		os.Exit(vc.CheckCmd(os.Args[2:]))
	case "lock":
		os.Exit(vc.LockCmd(os.Args[2:]))
	case "effects":
		os.Exit(vc.EffectsCmd(os.Args[2:]))
	default:
		fmt.Fprintln(os.Stderr, "unknown command", os.Args[1])
		os.Exit(2)
	}
}

func debugCmd(args []string) {
	fs := flag.NewFlagSet("debug", flag.ExitOnError)
	secs := fs.Int("t", 10, "solver timeout")
	keep := fs.String("keep", "", "directory to keep SMT files in")
	only := fs.String("only", "", "substring filter on obligation names")
	fs.Parse(args)
	t0 := time.Now()
	prog, err := vc.LoadProgram()
	if err != nil {
		fmt.Fprintln(os.Stderr, err)
		os.Exit(2)
	}
	fmt.Printf("loaded in %.1fs\n", time.Since(t0).Seconds())
	e := vc.NewEngine(prog)
	e.Prepare()
	keys := fs.Args()
	if len(keys) == 1 && keys[0] == "SWEEP" {
		keys = nil
		for k, fi := range prog.Funcs {
			if fi.File == "roll.peg.go" || fi.File == vc.ContractsFileName || fi.File == vc.GenFileName || strings.HasSuffix(fi.File, "_test.go") {
				continue
			}
			if _, has := prog.CF.Contracts[k]; !has {
				keys = append(keys, k)
			}
		}
		sort.Strings(keys)
	}
	if len(keys) == 0 {
		keys = append(keys, prog.CF.Order...)
	}
	for _, k := range keys {
		e.VerifyFunc(k)
	}
	for k, r := range e.Unsupported {
		fmt.Printf("OUTSIDE REACH %s: %s\n", k, strings.Join(r, "; "))
	}
	obls := e.Obls
	if *only != "" {
		var f []*vc.Obligation
		for _, o := range obls {
			if strings.Contains(o.Name, *only) {
				f = append(f, o)
			}
		}
		obls = f
	}
	fmt.Printf("%d obligations generated in %.1fs\n", len(obls), time.Since(t0).Seconds())
	e.SolveAll(obls, *secs, 16, false, *keep)
	sort.SliceStable(obls, func(i, j int) bool { return obls[i].Name < obls[j].Name })
	cnt := map[string]int{}
	for _, o := range obls {
		st := o.Status
		if o.Canary {
			if st == "proved" {
				st = "VACUOUS"
			} else {
				st = "canary-ok"
			}
		}
		cnt[st]++
		if o.Secs > 2 && (st == "proved" || st == "canary-ok") {
			fmt.Printf("SLOW %-8s %-70s %s %.2fs\n", st, o.Name, o.Solver, o.Secs)
		}
		if st != "proved" && st != "canary-ok" {
			fmt.Printf("%-10s %-70s %s %.2fs %s [%s]\n", st, o.Name, o.Solver, o.Secs, o.Pos, o.Desc)
		}
	}
	fmt.Println(cnt, fmt.Sprintf("total %.1fs", time.Since(t0).Seconds()))
}
