#!/bin/bash
# runs the quick command of every claimed check (refreshes evidence/*.json); prints one line per check
cd /verif
export GOFLAGS=-mod=mod GOPROXY=off GOSUMDB=off GOTOOLCHAIN=local
go build -o bin/dsvc ./cmd/dsvc || exit 2
for id in $(python3 -c "import json;print(' '.join(c['property_id'] for c in json.load(open('MANIFEST.json'))['checks']))"); do
  out=$(bin/dsvc check --tier quick $id 2>&1); rc=$?
  echo "$id rc=$rc $(echo "$out" | grep '^dsvc' )"
  echo "$out" | grep "^VIOLATION" | head -5
done
