#!/usr/bin/env python3
"""Must-fail corpus for the ValueMap contracts (C12): each mutation of valuemap.go compiles, and `dsvc check C12`
must report a violation on it; the unmutated scratch tree must pass.  Run: tools/selftest_valuemap.py [dsvc binary]"""
import os, subprocess, sys, tempfile, shutil
dsvc = sys.argv[1] if len(sys.argv) > 1 else '/verif/bin/dsvc'
env = dict(os.environ, GOFLAGS='-mod=mod', GOPROXY='off', GOSUMDB='off', GOTOOLCHAIN='local')
wt = tempfile.mkdtemp(prefix='vmself-')
os.rmdir(wt)
subprocess.check_call(['git', '-C', '/repo', 'worktree', 'add', '-q', '--detach', wt, 'HEAD'])
# the contracts under test are those of the working tree (they may be newer than HEAD)
shutil.copy('/repo/verif_contracts.go', wt + '/verif_contracts.go')
shutil.copy('/repo/valuemap.go', wt + '/valuemap.go')
MUT = [
 ('store-unexpunge-not-readded', "\t\tif e.unexpungeLocked() {\n\t\t\t// The entry was previously expunged, which implies that there is a\n\t\t\t// non-nil dirty map and this entry is not in it.\n\t\t\tm.dirty[key] = e\n\t\t}\n\t\te.storeLocked(&value)", "\t\te.unexpungeLocked()\n\t\te.storeLocked(&value)"),
 ('dirtyLocked-copies-expunged', "\t\tif !e.tryExpungeLocked() {\n\t\t\tm.dirty[k] = e\n\t\t}", "\t\tif e.tryExpungeLocked() {\n\t\t\tm.dirty[k] = e\n\t\t}"),
 ('dirtyLocked-copies-all', "\t\tif !e.tryExpungeLocked() {\n\t\t\tm.dirty[k] = e\n\t\t}", "\t\tm.dirty[k] = e"),
 ('missLocked-keeps-dirty', "\tm.read.Store(readOnlyValueMap{m: m.dirty})\n\tm.dirty = nil\n\tm.misses = 0\n}\n\nfunc (m *ValueMap) dirtyLocked", "\tm.read.Store(readOnlyValueMap{m: m.dirty, amended: true})\n\tm.misses = 0\n}\n\nfunc (m *ValueMap) dirtyLocked"),
 ('clear-keeps-read', "\tif len(read.m) > 0 || read.amended {\n\t\tm.read.Store(readOnlyValueMap{})\n\t}\n", ""),
 ('loadorstore-wrong-flag', "\t\tm.dirty[key] = newEntryValueMap(value)\n\t\tactual, loaded = value, false", "\t\tm.dirty[key] = newEntryValueMap(value)\n\t\tactual, loaded = value, true"),
 ('delete-keeps-slot', "\t\tif atomic.CompareAndSwapPointer(&e.p, p, nil) {\n\t\t\treturn *(**VMValue)(p), true\n\t\t}", "\t\tif atomic.CompareAndSwapPointer(&e.p, p, p) {\n\t\t\treturn *(**VMValue)(p), true\n\t\t}"),
 ('load-ignores-dirty', "\t\tif !ok && read.amended {\n\t\t\te, ok = m.dirty[key]\n\t\t\t// Regardless of whether the entry was present, record a miss: this key\n\t\t\t// will take the slow path until the dirty map is promoted to the read\n\t\t\t// map.\n\t\t\tm.missLocked()\n\t\t}\n\t\tm.mu.Unlock()\n\t}\n\tif !ok {\n\t\treturn value, false\n\t}\n\treturn e.load()", "\t\tm.mu.Unlock()\n\t}\n\tif !ok {\n\t\treturn value, false\n\t}\n\treturn e.load()"),
 ('length-counts-slots', "\tn := 0\n\tfor _, e := range entries {\n\t\tif _, ok := e.load(); ok {\n\t\t\tn++\n\t\t}\n\t}\n\treturn n", "\treturn len(entries)"),
 ('store-marks-unamended', "\t\t\tm.read.Store(readOnlyValueMap{m: read.m, amended: true})\n\t\t}\n\t\tm.dirty[key] = newEntryValueMap(value)\n\t}\n\tm.mu.Unlock()\n}", "\t\t\tm.read.Store(readOnlyValueMap{m: read.m, amended: false})\n\t\t}\n\t\tm.dirty[key] = newEntryValueMap(value)\n\t}\n\tm.mu.Unlock()\n}"),
 ('range-skips-promotion', "\t\tif read.amended {\n\t\t\tread = readOnlyValueMap{m: m.dirty}\n\t\t\tm.read.Store(read)\n\t\t\tm.dirty = nil\n\t\t\tm.misses = 0\n\t\t}\n\t\tm.mu.Unlock()", "\t\tm.mu.Unlock()"),
 ('loadanddelete-wrong-table', "\t\t\te, ok = m.dirty[key]\n\t\t\tdelete(m.dirty, key)", "\t\t\te, ok = m.dirty[key]\n\t\t\tdelete(m.dirty, key+\"x\")\n\t\t\tok = false"),
]
orig = open(wt + '/valuemap.go').read()
def run():
    r = subprocess.run([dsvc, 'check', 'C12'], env=dict(env, DSVC_REPO=wt), capture_output=True, text=True)
    v = [l for l in r.stdout.splitlines() + r.stderr.splitlines() if l.startswith('VIOLATION') and 'obligation-missing' not in l]
    return r.returncode, v
bad = 0
rc, v = run()
print('baseline rc=%d violations=%d' % (rc, len(v)))
if rc != 0: bad += 1
for name, a, b in MUT:
    if orig.count(a) != 1:
        print(name, 'MUTATION-DOES-NOT-APPLY (%d matches)' % orig.count(a)); bad += 1; continue
    open(wt + '/valuemap.go', 'w').write(orig.replace(a, b, 1))
    b1 = subprocess.run(['go', 'build', './...'], cwd=wt, env=env, capture_output=True, text=True)
    if b1.returncode != 0:
        print(name, 'DOES-NOT-BUILD', b1.stderr[:200]); bad += 1; continue
    rc, v = run()
    if rc == 1 and v:
        print(name, 'caught:', v[0].split('obligation=')[-1][:100])
    else:
        print(name, 'NOT-CAUGHT rc=%d' % rc); bad += 1
open(wt + '/valuemap.go', 'w').write(orig)
subprocess.call(['git', '-C', '/repo', 'worktree', 'remove', '--force', wt])
sys.exit(1 if bad else 0)
