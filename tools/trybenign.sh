#!/bin/bash
# usage: tools/trybenign.sh <patch.diff> [props...]  — applies a behaviour-preserving change in a scratch worktree of /repo HEAD and
# runs the checks; EVERY violation line (including ledger-missing ones) is a false alarm and is printed.
export GOFLAGS=-mod=mod GOPROXY=off GOSUMDB=off GOTOOLCHAIN=local
cd /verif
patch=$1; shift
props="$@"
[ -z "$props" ] && props=$(python3 -c "import json;print(' '.join(c['property_id'] for c in json.load(open('MANIFEST.json'))['checks']))")
wt=/tmp/benignwt-$$
git -C /repo worktree add -q --detach $wt HEAD || exit 2
trap 'git -C /repo worktree remove --force '$wt EXIT
git -C $wt apply "$patch" || { echo PATCH-DOES-NOT-APPLY; exit 2; }
(cd $wt && go build ./... && go test -vet=off -count=1 . 2>&1 | tail -1)
for p in $props; do
  out=$(DSVC_REPO=$wt ${DSVC_BIN:-bin/dsvc} check $p 2>&1); rc=$?
  n=$(echo "$out" | grep -c '^VIOLATION')
  echo "$p rc=$rc violations=$n"
  echo "$out" | grep '^VIOLATION' | sed 's/replay=[^ ]*//' | cut -c1-200 | head -6
done
