#!/usr/bin/env python3
"""Regenerates /verif/MANIFEST.json from the table below (the single place where claims are recorded)."""
import json, subprocess

ENV = "GOFLAGS=-mod=mod GOPROXY=off GOSUMDB=off GOTOOLCHAIN=local"
TECH = "contract-based deductive verification: contracts on the real Go functions (comment file under build tag verif), VCs by symbolic execution of the typed AST, discharged by z3/z3-new/cvc5"

CLAIMS = {
 "C04": dict(
  text="Proof (partial): full functional contracts on Roll, _roll64, RollCommon, RollCoC, RollFate, RollWoD, RollDoubleCross, wodCheck, doubleCrossCheck are discharged for all parameters, all seeds and all iteration counts: every die lies in its face range (ghost assertion at each Roll call), counts and totals equal what the documented game rule computes from the dice (ghost fold, independent of the function's own bookkeeping), sort order and keep/drop pick as documented, parameter validators are exact.",
  note="Not covered: the display strings are uninterpreted (text is not parsed back); VM call sites (rollvm.go dice cases) are covered only where listed in the evidence; overflow-free totals are a precondition of RollCommon (times*face fits int64). Assumed: sort.Slice contract (permutation, ordered, sum preserved), fmt/strconv totality, PCG source modelled as an arbitrary stream.",
  ref="DESIGN.md §3 C04"),
 "C05": dict(
  text="Proof of the arithmetic core: _roll64/Roll return (first accepted draw) mod n + 1 with acceptance region [0,C), C = M - M mod n, every rejected draw >= C, power-of-two sizes consume exactly one draw; lemmas n | C, fast check sound, bijection v <-> (k,f) on [0,C) (each face has C/n pre-images), mask lemmas in QF_BV — all for every n in [1, 2^63-1].",
  note="The statistical statement (uniform, independent) is the textbook consequence for an ideal uniform independent 64-bit source; PCG quality is assumed. Termination of the rejection loop holds with probability 1 only (partial correctness). _roll32 is dead code on 64-bit builds and not verified.",
  ref="DESIGN.md §3 C05"),
 "C15": dict(
  text="Proof: Roll's mode contract (no draw in min/max mode, returns 1 / sides); RollCommon: pick*lo <= total <= pick*hi with lo==hi (attained) in min/max mode, for all keep/drop/min/max modifiers; RollFate -4/+4/in between; RollCoC 1..100; WoD/DC never explode in min mode; no generator use in min/max mode (heap equality on the stream position).",
  note="Known finding (reported, not an alarm): min mode is not a lower bound for CoC penalty dice. Lifting the per-term brackets through + and *c of the VM (OpAdd/OpMultiply) is not yet under contract.",
  ref="DESIGN.md §3 C15"),
 "C06": dict(
  text="Proof (partial): (a) effect obligations decided over the typed call graph for every function reachable from the exported API or used as a function value: no process-global random generator, clock only in debug printing, no order-sensitive iteration over Go maps; every Roll* call site passes <ctx>.RandSrc (or the accessor ctxRandSrc, itself under contract); sub-VM constructors copy the parent's source; (b) SMT-discharged contracts: Roll/_roll64 draw only from the source they are given (quantified frame on the stream-position heap), no draw in min/max mode, the fallback to the shared source is taken only when src == nil, randSource is non-nil and never reassigned.",
  note="Equality of two whole runs is argued from function-level determinism, not proved relationally. Known finding: dict iteration order (Go map) reaches printing and keys/values/items. Init/GetCurSeed inverse pair rests on the assumed MarshalBinary/UnmarshalBinary contract of rand.PCGSource and is not yet an obligation.",
  ref="DESIGN.md §3 C06"),
 "C11": dict(
  cat="other",
  text="Necessary condition only: for every function reachable from the exported API (including functions used as values and parser actions) the frame pass proves that it assigns no package-level variable, reads only package-level variables that are never assigned after initialisation, uses no process-global generator and no generator object shared through a package-level pointer. The family cannot reason about schedules; a realistic regression (a package-level cache, a mutated operator table, a shared generator) fails a named per-function obligation.",
  note="Not covered: data races through heap shared by aliasing, and every statement about interleavings. Known findings: the parse-error language global and the shared unseeded generator (both confirmed with go test -race).",
  ref="DESIGN.md §3 C11",
  tech="contract-based frame/effect obligations (writes-global, reads-immutable-global, no-shared-generator) discharged by dsvc's syntactic pass over the typed call graph"),
}

props = [json.loads(l)["id"] for l in open("/verif/properties.jsonl")]
NA_REASON = "check not built yet in this round (framework under construction); see DESIGN.md §5 for the build order"
NA = {}

checks = []
for pid in props:
    if pid in CLAIMS:
        c = CLAIMS[pid]
        checks.append({
            "property_id": pid,
            "quick_cmd": f"cd /verif && {ENV} bin/dsvc check --tier quick {pid}",
            "thorough_cmd": f"cd /verif && {ENV} bin/dsvc check --tier thorough {pid}",
            "evidence_file": f"/verif/evidence/{pid}.json",
            "replay_cmd_template": "cat {path}",
            "engine": "dsvc",
            "level_claimed": {"category": c.get("cat", "proof"), "text": c["text"], "design_ref": c["ref"]},
            "level_note": c["note"],
            "technique": c.get("tech", TECH),
        })
na = [{"property_id": p, "reason": NA.get(p, NA_REASON)} for p in props if p not in CLAIMS]
hooks = subprocess.run(["git", "-C", "/repo", "log", "--format=%H", "--grep", "^verif:"], capture_output=True, text=True).stdout.split()
m = {
 "version": 1,
 "setup_cmd": f"cd /verif && {ENV} go build -o bin/dsvc ./cmd/dsvc",
 "hooks": {"guard": "verif", "enable": "go build -tags verif: adds /repo/verif_contracts.go (contracts as comments, spec intrinsics and pure spec functions; no production code changes)",
           "baseline_off_cmd": "cd /repo && go test -vet=off -count=1 .", "source_commits": hooks, "add_only": True},
 "engines": [{"name": "dsvc", "path": "/verif/cmd/dsvc", "serves_properties": sorted(CLAIMS), "kind_free_text": "self-written VC generator for Go (go/packages typed AST -> symbolic execution -> SMT-LIB), solver race z3-new/z3/cvc5, obligation ledger, known-findings file, counterexample replay via go test -overlay"}],
 "checks": checks,
 "not_applicable": na,
 "notes": "Obligation ledger: /verif/obligations.lock. Known findings: /verif/known_findings.json. Contracts: /repo/verif_contracts.go (build tag verif).",
}
json.dump(m, open("/verif/MANIFEST.json", "w"), indent=1, ensure_ascii=False)
print("claimed:", sorted(CLAIMS), "not_applicable:", len(na))
