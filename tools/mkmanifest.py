#!/usr/bin/env python3
"""Regenerates /verif/MANIFEST.json from the table below (the single place where claims are recorded)."""
import json, subprocess

ENV = "GOFLAGS=-mod=mod GOPROXY=off GOSUMDB=off GOTOOLCHAIN=local"
TECH = "contract-based deductive verification: contracts on the real Go functions (comment file under build tag verif), VCs by symbolic execution of the typed AST, discharged by z3/z3-new/cvc5"

CLAIMS = {
 "C04": dict(
  text="Proof (partial): full functional contracts on Roll, _roll64, RollCommon, RollCoC, RollFate, RollWoD, RollDoubleCross, wodCheck, doubleCrossCheck are discharged for all parameters, all seeds and all iteration counts: every die lies in its face range (ghost assertion at each Roll call), counts and totals equal what the documented game rule computes from the dice (ghost fold, independent of the function's own bookkeeping), sort order and keep/drop pick as documented, parameter validators are exact.",
  note="Not covered: the display strings are uninterpreted (text is not parsed back); VM call sites (rollvm.go dice cases) are covered only where listed in the evidence; overflow-free totals are a precondition of RollCommon (times*face fits int64). Assumed: sort.Slice contract (permutation, ordered, sum preserved), fmt/strconv totality, PCG source modelled as an arbitrary stream.",
  ref="DESIGN.md §3 C04"),
 "C05": dict(
  text="Proof of the arithmetic core: _roll64/Roll return (first accepted draw) mod n + 1 with acceptance region [0,C), C = M - M mod n, every rejected draw >= C, power-of-two sizes consume exactly one draw; lemmas n | C, fast check sound, bijection v <-> (k,f) on [0,C) (each face has C/n pre-images), mask lemmas in QF_BV — all for every n in [1, 2^63-1].",
  note="The statistical statement (uniform, independent) is the textbook consequence for an ideal uniform independent 64-bit source; PCG quality is assumed. Termination of the rejection loop holds with probability 1 only (partial correctness). _roll32 is dead code on 64-bit builds and not verified.",
  ref="DESIGN.md §3 C05"),
 "C15": dict(
  text="Proof: Roll's mode contract (no draw in min/max mode, returns 1 / sides); RollCommon: pick*lo <= total <= pick*hi with lo==hi (attained) in min/max mode, for all keep/drop/min/max modifiers; RollFate -4/+4/in between; RollCoC 1..100; WoD/DC never explode in min mode; no generator use in min/max mode (heap equality on the stream position).",
  note="Known finding (reported, not an alarm): min mode is not a lower bound for CoC penalty dice. Lifting the per-term brackets through + and *c of the VM (OpAdd/OpMultiply) is not yet under contract.",
  ref="DESIGN.md §3 C15"),
 "C06": dict(
  text="Proof (partial): (a) effect obligations decided over the typed call graph for every function reachable from the exported API or used as a function value: no process-global random generator, clock only in debug printing, no order-sensitive iteration over Go maps; every Roll* call site passes <ctx>.RandSrc (or the accessor ctxRandSrc, itself under contract); sub-VM constructors copy the parent's source; (b) SMT-discharged contracts: Roll/_roll64 draw only from the source they are given (quantified frame on the stream-position heap), no draw in min/max mode, the fallback to the shared source is taken only when src == nil, randSource is non-nil and never reassigned.",
  note="Equality of two whole runs is argued from function-level determinism, not proved relationally. Known finding: dict iteration order (Go map) reaches printing and keys/values/items. Init/GetCurSeed inverse pair rests on the assumed MarshalBinary/UnmarshalBinary contract of rand.PCGSource and is not yet an obligation.",
  ref="DESIGN.md §3 C06"),
 "C11": dict(
  cat="other",
  text="Necessary condition only: for every function reachable from the exported API (including functions used as values and parser actions) the frame pass proves that it assigns no package-level variable, reads only package-level variables that are never assigned after initialisation, uses no process-global generator and no generator object shared through a package-level pointer. The family cannot reason about schedules; a realistic regression (a package-level cache, a mutated operator table, a shared generator) fails a named per-function obligation.",
  note="Not covered: data races through heap shared by aliasing, and every statement about interleavings. Known findings: the parse-error language global and the shared unseeded generator (both confirmed with go test -race).",
  ref="DESIGN.md §3 C11",
  tech="contract-based frame/effect obligations (writes-global, reads-immutable-global, no-shared-generator) discharged by dsvc's syntactic pass over the typed call graph"),
 "C01": dict(
  text="Proof (partial): panic-freedom obligations (nil dereference, index, slice bounds against cap, type assertion, integer division, make length, nil-map write, nil function call, explicit panic) are generated for every such site of every function under contract and discharged under the data-structure invariants wfValue/DictData/NativeFunctionData/customDice* (assumed on field read, re-established at every call, return and loop head). Covered: the whole VM dispatch loop evaluate (every opcode case, closures inlined, 2500+ obligations), roll_func.go, the parser's code-buffer and jump-patching helpers, the (de)serialisation entry points, value constructors/accessors, the operators. The bytecode/VM interface (operand types per opcode, stack height, open dice/detail/block state) is an explicit assumption discharged on the compiler side by C08.",
  note="The zero-annotation sweep over every function without a contract is part of this check as advisory obligations: those that discharged on the unchanged tree (about 1500) are in the ledger and claimed, the rest (mostly missing preconditions) are counted as open in the evidence. Native functions and methods are under contract with the arity / receiver type their registration tables declare (native:* obligations). ValueMap (sync/atomic/unsafe) is outside the subset. Goroutine stack exhaustion by deep recursion, allocation volume, third-party totality: not expressible. Host callbacks are assumed to return normally, not to re-enter the running context and not to modify VM registers / operand stack. Termination: only loops with a decreases clause.",
  ref="DESIGN.md §3 C01"),
 "C02": dict(
  text="Proof (partial): functional contracts of the binary/unary operators on integers, strings and arrays (two's-complement sums, truncated division, divide-by-zero error unless IgnoreDiv0, comparison results 0/1, null-coalescing, array concatenation cap), of getRealIndex/getClampRealIndex, and of the jump-patching helpers (OffsetPopAndSet/OffsetJmpSetX/BreakSet land on the stated target); structural obligations: binOperator[c-typeAdd] is the method named for opcode c and the table is immutable; every opcode a parser action can emit has a VM case; the VM side of the per-opcode stack-effect table (pops/pushes) is asserted for every case.",
  note="Not covered: agreement of whole programs with an independent semantics (needs a second semantics and a compiler-correctness proof), float numerics (uninterpreted), dict/array built-in methods, scoping across sub-VMs, precedence (the grammar is its own definition).",
  ref="DESIGN.md §3 C02"),
 "C07": dict(
  text="Proof (partial): the operation counter never wraps (closure contract of numOpCountAdd: mathematical sum or saturation, error set when the limit is exceeded, non-negative counts at every call site); WriteCode either appends the instruction or records codeOverflow, which Parse turns into an error (no silent truncation); block/template nesting guards precede the fixed-size writes; range literals are capped at 512 with overflow-safe length; inner dice loops carry decreases clauses.",
  note="Known findings (reported, not alarms): the exploding rounds of RollWoD / RollDoubleCross have no variant and are not charged to the budget. Sub-VM calls (FuncInvokeRaw, ComputedExecute) are under contract: the caller's counter ends equal to the sub-VM's; the instruction-overflow flag is sticky and untouched by nested code buffers. Not under contract: the parse budget (panic(errMaxExprCnt) in generated code), memory volume of string doubling.",
  ref="DESIGN.md §3 C07"),
 "C09": dict(
  text="Proof (partial): UnmarshalJSON returns an error or a well-formed value for every type tag (including unknown tags, unknown native names, null elements) whose type tag and scalar payload are the document's; ToJSONRaw errors on nil and writes type tag and payload at the paths the decoder reads; the scalar round trip is a verified lemma; VMValueFromJSON returns a non-nil pointer that is well-formed when err == nil.",
  note="Round trip of scalars: ToJSONRaw and UnmarshalJSON are specified over an assumed JSON document model (what Marshal writes at a tag path is what Unmarshal reads there) and lemmaJSONRoundTripScalar (a two-call Go function in the contracts file, verified) gives decode(encode(v)) == v for ints, floats and strings; functions and computed values agree on expr/name. Not covered: arrays and dicts (hand-assembled bytes; ValueMap is outside the subset — the seeded change in ValueMap.ToJSON is NOT detected), cycle detection, behavioural equivalence of a restored VM.",
  ref="DESIGN.md §3 C09"),
 "C10": dict(
  text="Proof (partial): (*VMValue).UnmarshalJSON ensures err == nil ==> wfValue(v) with the type tag among the ten known ones and no nil array element, for every input and every path (each return is a separate obligation); the decoder may leave *v ill-formed only when it returns an error (exempt clause). Operations on decoded values are covered by the C01 obligations, whose only assumption on values is the same invariant.",
  note="ValueMap.UnmarshalJSON (dict values) is outside the subset (sync/atomic); its null check is covered only by the structure of the fix. json.Unmarshal is an assumed external. The crash-freedom of built-in methods on decoded values is covered as far as C01 covers those functions.",
  ref="DESIGN.md §3 C10"),
 "C03": dict(
  text="Proof (partial) of the compiler half: failure atomicity of the grammar. pigeon restores the text position but not the code buffer when a sequence fails, so for every sequence element of every rule that runs in action mode the obligation `cannot fail after an earlier element of its sequence emitted code` is decided structurally on the grammar table g extracted from roll.peg.go on every run (look-ahead guards `&X X`, `&&(X) X`, guard items threaded into rule bodies and out of nested groups, flag writes voiding guards, parse-error predicates aborting the parse). Structurally failing obligations get a witness search: candidate inputs derived from the grammar are run on the real parser (instrumented by overlay so that the failing element is known) and a witness is an input whose compiled code differs from the code of its matched text; only confirmed witnesses are reported.",
  note="Assumption A_det: matching is a function of position and flags and is the same in look-ahead and in the real run. 18 obligations are known findings (stale code, with witnesses); 29 structurally failing obligations have no witness and are reported as undecided, not claimed. RunAfterParsed is under contract: Matched + RestInput == string(parser input) (byte strings as a function of heap version, start and length), and Parse hands the parser exactly its argument (frame obligation). Not covered: equality of detail text and variable effects of Matched alone (follows from equal code only).",
  ref="DESIGN.md §3 C03", tech="contract-based: rule contract `!ok ==> parser data unchanged` decided per sequence element on the extracted PEG table; witness search replays candidate inputs on the real parser"),
 "C08": dict(
  text="Proof (partial): ghost typing of the compiler. Every grammar rule and every semantic action / ParserData helper is interpreted over an abstract state (operand-stack height as an affine form over repetition counts, open block/template/dice nesting with saved heights, mark.detail, jump-patching stack with the state on each taken branch, counter stack, name stack, break/continue sets, nested code buffers); rule summaries are computed to a fixpoint and applied at references. 463 obligations: operands present at every emitted instruction, count operands of push.array/push.dict/invoke/ld.fs equal to the values pushed, jump sources and targets agree on nesting and height, alternatives agree, repetition bodies are iteration-independent, buffers end balanced. Opcode stack effects are read from specPops/specPushes/specNeedsDetail/specNeedsDice, which Engine A proves against every VM case (evaluate: stack effect, block pops, je.dup). Failure atomicity (shared with C03) covers the valid-prefix-plus-garbage inputs.",
  note="Known findings (witnesses in known_findings.json): attribute-, item- and slice-assignment used as expressions, and the stale-code findings of C03 (break/continue inside if / template / function body was found here and repaired; the typing pass follows unwindToLoop and the loop reset of CodePush mechanically). The branch behaviour of jne/je/je.dup/jmp and the abstract effect of the ParserData primitives (OffsetPush, OffsetPopAndSet, OffsetJmpSetX, Counter*, BreakSet, ContinueSet, CodePush/Pop) are stated in the analysis and tied to the code by the Engine A contracts of those functions, not derived from their bodies. Operand *types* (code.Value.(T)) per opcode are asserted on the VM side only.",
  ref="DESIGN.md §3 C08", tech="contract-based: per-rule typing contracts over the extracted PEG table and the typed AST of the actions, discharged by abstract interpretation to a fixpoint (no solver); VM side by SMT"),
 "C13": dict(
  text="Proof (partial): compile side — every template/literal alternative of `fstring` leaves exactly one value; AddFormatString receives the number of parts pushed since the matching CounterPush (affine counting through the repetition), every hole contributes exactly one value (fstr.block.pop), nesting is balanced (typed:* obligations of rules fstring, strPart*, fstringStmt*). VM side — ld.fs pops n and pushes one string; fstr.block.pop leaves saved+1 values, pushing the block's last value or the empty string when the block left none; block.pop inside a template pushes the empty string (ghost assertions in evaluate).",
  note="Not covered: the text of escapes and literal segments (strings are uninterpreted: no statement about `\\n`, quotes or 0x1E), the order of concatenation inside ld.fs beyond the stack effect.",
  ref="DESIGN.md §3 C13", tech="contract-based: grammar typing contracts (abstract interpretation) + VM ghost assertions discharged by SMT"),
 "C16": dict(
  text="Proof: flag dominance on the grammar table — every action that emits an instruction of a dice family (coc.*, wod.*, dc.*, fate) runs only where the family's Enable flag has been tested true on every path from the start rule (facts established by `&{return c.data.Config.F}` predicates, voided by flag writes and FlagsPop, met over all non-look-ahead reference sites, greatest fixpoint); block.push / loops / function definitions / return only where DisableStmts was tested false. Frame: no function reachable from Parse/Run assigns a Context's Config; the parser's Config is a struct copy.",
  note="The meaning of a predicate is read from its body only when it has the form `return [!]c.data.Config.F`. `est` (st expressions) sets Disable* and restores with FlagsPop; facts are dropped there. Not covered: that a disabled family's letters parse as identifiers (text level).",
  ref="DESIGN.md §3 C16", tech="contract-based: dominance obligations on the extracted PEG table and frame obligations from the effect pass (no solver)"),
 "C18": dict(
  text="Proof (partial): compile side — st.* instructions are emitted only by rules reachable solely through the `\"^st\"` alternative; every alternative of st_assign / st_modify_lead emits exactly one st.* instruction. VM side — each st.* case calls CallbackSt exactly once when a callback is installed and never otherwise, with the documented type string, fresh clones of name and value, and the operator/text of the instruction (ghost call counter and precall assertions in evaluate); `-` normalises through OpNegation with a nil check.",
  note="Not covered: which text a name token matches and how abutting edits are split (matchers are uninterpreted) — the seeded change of C18 (digits allowed inside st_name2r) is NOT detected. Order of callbacks follows from program order of the emitted instructions (not separately proved).",
  ref="DESIGN.md §3 C18", tech="contract-based: grammar obligations (reachability, typing) + VM ghost assertions discharged by SMT"),
 "C14": dict(
  text="Proof (partial): (a) every dice instruction of the VM (dice, fate, coc bonus/penalty, wod, dc) pushes the total returned by its Roll* call and records in the open detail span that same total as a fresh int value and the detail text returned by the same call (ghost capture at the call, assertions at the end of the instruction); with C04 (the total equals the sum of the dice the text lists) this is `each annotation's value is the total of the dice it lists`. (b) frame obligations: GetDetailText (host rewrite hooks aside) writes only its cache, reaches no host code other than the three detail hooks, draws no random number and returns the cache it stored, so requesting the text is idempotent and does not touch result, variables or generator.",
  note="Detail spans never alias the operand stack (raw-alias obligation). Not covered: the rendered text itself (makeDetailStr: grouping of nested spans, reverse splice into the source) — strings are uninterpreted and bytes.Buffer is not modelled, so neither `the text is the source with rolls replaced` nor the slice bounds inside makeDetailStr are obligations here (the seeded change of the span grouping is NOT detected); arithmetic meaning of the text after deleting annotations.",
  ref="DESIGN.md §3 C14"),
 "C17": dict(
  text="Proof (partial): custom dice — PrepareCustomDice returns false exactly when no match is pending and leaves pendingCustomDice nil, CommitCustomDice clears it; tryMatchCustomDice returns a non-nil match iff ok (regex group slicing in bounds under the assumed FindStringSubmatchIndex contract); the VM case dice.custom calls the handler exactly once per evaluation of the instruction with the running context and a fresh copy of the groups, pushes a value equal to the handler's result and stores a fresh clone (never the handler's object) in the detail span. Store hook — StoreName calls the hook at most once and only when useHook; a hook that returns (nil, false) leaves the stored name and value exactly the caller's, an overwrite replaces the value, a hook that claims the store suppresses it.",
  note="Not covered: load hooks (LoadNameWithDetail and solveLoadPostAndComputed are assumed contracts), stream parsers resetting correctly, equality of whole evaluations with and without registered extensions (relational), the grammar side `never-matching syntaxes change nothing` beyond the atomicity obligation of exprDice's first alternative. Host callbacks are assumed not to touch VM registers.",
  ref="DESIGN.md §3 C17"),
 "C19": dict(
  text="Proof (partial): read() keeps 0 <= offset and offset + w <= len(data), advances by exactly the width of the previous rune, and changes line/column only by `col+1` or `line+1, col=0`; failAt moves maxFailPos only to a position it was given and never backwards, so the reported offset lies within the input; formatFriendlyError, fmtErr, getLineAtBytes, getPrevNonSpaceChar, findUnclosedBracketBytes are panic-free for 0 <= offset <= len(input) (slices, indices, loop termination of getPrevNonSpaceChar). Language: in fmtErr each configured-language branch appends only that language's header, position and message (syntactic obligation on the two switches).",
  note="Known findings: (1) read() counts a newline when it steps onto it, so an error AT a newline is reported as next-line:0 (`^st\\n` -> 2:0) — the property-derived goal `rn == newline ==> line unchanged` fails; (2) parse errors raised by grammar actions are Chinese-only in every language setting. The caret/quoted-line text itself is not interpreted. The language selector is a package-level variable (C11 known finding).",
  ref="DESIGN.md §3 C19"),
}

CLAIMS["C12"] = dict(
  text="Proof of the sequential half: every method of ValueMap (Load, Store, LoadOrStore, LoadAndDelete, Delete, Clear, Range, Length, MustLoad, ToJSON, UnmarshalJSON, and the internal missLocked / dirtyLocked / entry operations) is verified against the ordinary string-keyed map it stands for (abstract content vmHas/vmGet over the read table, the amended flag and the dirty table): the representation invariant of the two-table design is required and re-established by every method (`holds`), each operation changes exactly the key it names and returns what the abstract map holds, promotion and dirty-table rebuild leave the content unchanged, the zero value is the empty map, Range hands f live pairs with their current values, each key at most once, and all of them unless f stops it. Go maps are modelled precisely for the table type; mutexes, atomic.Value and atomic pointer operations have their sequential meaning; CAS retry loops are shown to run once. Frame obligations: the tables are touched only by ValueMap's own methods, and every method is under a `holds` contract.",
  note="NOT covered (not applicable to this family): the concurrent half of the property — linearizability and quiescent consistency are statements about interleavings; contracts on single calls in a sequential semantics cannot state them, and dsvc has no model of concurrent atomics. Length: cardinality is not axiomatised; proved are result >= 0 and result == 0 <=> the map is empty. Range's claims hold under the listed assumption that f does not modify the map it ranges over. Fixed on the way (fix: commits): Length counted deleted entries; dict equality compared len of the internal dirty table.",
  ref="DESIGN.md §3 C12")

props = [json.loads(l)["id"] for l in open("/verif/properties.jsonl")]
NA_REASON = "check not built yet in this round (framework under construction); see DESIGN.md §5 for the build order"
NA = {}

checks = []
for pid in props:
    if pid in CLAIMS:
        c = CLAIMS[pid]
        checks.append({
            "property_id": pid,
            "quick_cmd": f"cd /verif && {ENV} bin/dsvc check --tier quick {pid}",
            "thorough_cmd": f"cd /verif && {ENV} bin/dsvc check --tier thorough {pid}",
            "evidence_file": f"/verif/evidence/{pid}.json",
            "replay_cmd_template": "cat {path}",
            "engine": "dsvc",
            "level_claimed": {"category": c.get("cat", "proof"), "text": c["text"], "design_ref": c["ref"]},
            "level_note": c["note"],
            "technique": c.get("tech", TECH),
        })
na = [{"property_id": p, "reason": NA.get(p, NA_REASON)} for p in props if p not in CLAIMS]
hooks = subprocess.run(["git", "-C", "/repo", "log", "--format=%H", "--grep", "^verif:"], capture_output=True, text=True).stdout.split()
m = {
 "version": 1,
 "setup_cmd": f"cd /verif && {ENV} go build -o bin/dsvc ./cmd/dsvc",
 "hooks": {"guard": "verif", "enable": "go build -tags verif: adds /repo/verif_contracts.go (contracts as comments, spec intrinsics and pure spec functions; no production code changes)",
           "baseline_off_cmd": "cd /repo && go test -vet=off -count=1 .", "source_commits": hooks, "add_only": True},
 "engines": [{"name": "dsvc", "path": "/verif/cmd/dsvc", "serves_properties": sorted(CLAIMS), "kind_free_text": "self-written VC generator for Go (go/packages typed AST -> symbolic execution -> SMT-LIB), solver race z3-new/z3/cvc5, obligation ledger, known-findings file, counterexample replay via go test -overlay"}],
 "checks": checks,
 "not_applicable": na,
 "notes": "Obligation ledger: /verif/obligations.lock. Known findings: /verif/known_findings.json. Contracts: /repo/verif_contracts.go (build tag verif).",
}
json.dump(m, open("/verif/MANIFEST.json", "w"), indent=1, ensure_ascii=False)
print("claimed:", sorted(CLAIMS), "not_applicable:", len(na))
