#!/bin/bash
# usage: tools/allseeds.sh [ids...]   — replays every stored seed in a scratch worktree of /repo HEAD (DSVC_REPO), runs the
# check of the property it breaks, prints CAUGHT (a violation other than ledger-missing) / LEDGER-ONLY / MISSED.
export GOFLAGS=-mod=mod GOPROXY=off GOSUMDB=off GOTOOLCHAIN=local
cd /verif
wt=/tmp/seedwt-$$
git -C /repo worktree add -q --detach $wt HEAD || exit 2
trap 'git -C /repo worktree remove --force '$wt EXIT
ids="$@"
[ -z "$ids" ] && ids=$(ls seeded)
for id in $ids; do
  p=$(python3 -c "import json;print(json.load(open('seeded/$id/meta.json'))['breaks'])")
  if ! git -C $wt apply /verif/seeded/$id/patch.diff 2>/dev/null; then echo "$id $p PATCH-DOES-NOT-APPLY"; git -C $wt checkout -q -- .; continue; fi
  out=$(DSVC_REPO=$wt bin/dsvc check $p 2>&1)
  git -C $wt checkout -q -- .
  v=$(echo "$out" | grep '^VIOLATION' | grep -v obligation-missing)
  if [ -n "$v" ]; then echo "$id $p CAUGHT $(echo "$v" | head -1 | sed 's/.*obligation=//' | cut -c1-110)";
  elif echo "$out" | grep -q "obligation-missing"; then echo "$id $p LEDGER-ONLY";
  else echo "$id $p MISSED"; fi
done
