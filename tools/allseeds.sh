#!/bin/bash
# usage: tools/allseeds.sh [ids...]   — applies every stored seed to /repo in turn, runs the check of the property it breaks,
# and prints CAUGHT (a violation other than ledger-missing) / LEDGER-ONLY / MISSED.  /repo must be clean.
cd /verif
ids="$@"
[ -z "$ids" ] && ids=$(ls seeded)
for id in $ids; do
  p=$(python3 -c "import json;print(json.load(open('seeded/$id/meta.json'))['breaks'])")
  out=$(tools/tryseed.sh /verif/seeded/$id/patch.diff $p 2>&1)
  if echo "$out" | grep -q "^VIOLATION"; then echo "$id $p CAUGHT $(echo "$out" | grep '^VIOLATION' | head -1 | sed 's/.*obligation=//' | cut -c1-110)";
  elif echo "$out" | grep -q "(+ [1-9][0-9]* ledger"; then echo "$id $p LEDGER-ONLY";
  else echo "$id $p MISSED"; fi
done
