#!/bin/bash
# must-fail corpus for the grammar typing pass: each mutation of the generated actions must fail a typed:* obligation
# that passes on the unchanged tree.  Run on a clean /repo; every mutation is reverted.
set -u
cd /repo
git diff --quiet || { echo "repo dirty"; exit 2; }
run() { # name, sed-expression
  sed -i "$2" roll.peg.go
  if git diff --quiet; then echo "MUTATION-NOT-APPLIED $1"; return; fi
  out=$(cd /verif && bin/dsvc check C08 2>&1 | grep "^VIOLATION" | grep "typed:" | sed 's/replay=[^ ]* //' | head -3)
  git checkout -- roll.peg.go
  if [ -n "$out" ]; then echo "CAUGHT $1"; echo "$out" | sed 's/^/    /'; else echo "MISSED $1"; fi
}
run "ternary2 binds one jump too few"  '4680s/CounterPop() + 1/CounterPop()/'
run "logic-or without push.last"       '4706s/c.data.AddOp(typePushLast)/_ = 0/'
run "array element not counted"        '5315s/c.data.CounterAdd(1)/_ = 0/'
run "if without block.pop"             '4387s/c.data.AddOp(typeBlockPop)/_ = 0/'
