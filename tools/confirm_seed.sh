#!/bin/bash
# usage: tools/confirm_seed.sh <dir with patch.diff and zz_demo_test.go>
# Confirms in a scratch worktree: suite passes with the change, demo fails with it, demo passes without it.
set -u
src=$1
export GOFLAGS=-mod=mod GOPROXY=off GOSUMDB=off GOTOOLCHAIN=local
wt=/tmp/cs-$$
git -C /repo worktree add -q --detach $wt HEAD || exit 2
cd $wt
git apply "$src/patch.diff" || { echo "PATCH-DOES-NOT-APPLY"; cd /; git -C /repo worktree remove --force $wt; exit 2; }
go build ./... && echo BUILD-OK
go test -vet=off -count=1 . 2>&1 | tail -1 | sed 's/^/SUITE-WITH-CHANGE: /'
cp "$src/zz_demo_test.go" .
go test -vet=off -count=1 -timeout 120s -run 'TestSeededDemo$' . 2>&1 | tail -1 | sed 's/^/DEMO-WITH-CHANGE: /'
git apply -R "$src/patch.diff"
go test -vet=off -count=1 -timeout 120s -run 'TestSeededDemo$' . 2>&1 | tail -1 | sed 's/^/DEMO-WITHOUT-CHANGE: /'
cd /
git -C /repo worktree remove --force $wt
