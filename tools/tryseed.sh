#!/bin/bash
# usage: tools/tryseed.sh <patch.diff> <property>...   — applies a seeded change to /repo, runs the checks, reverts.
set -u
patch=$1; shift
cd /repo || exit 2
if ! git diff --quiet; then echo "repo dirty"; exit 2; fi
git apply "$patch" || { echo "patch does not apply"; exit 2; }
export GOFLAGS=-mod=mod GOPROXY=off GOSUMDB=off GOTOOLCHAIN=local
go build ./... 2>&1 | head -3
for p in "$@"; do
  (cd /verif && bin/dsvc check $p 2>&1 | grep -v "^KNOWN-FINDING\|^UNDECIDED" | sed 's/replay=[^ ]*//' | cut -c1-200 | tail -6; )
done
git checkout -- . 
git status --short | head -3
