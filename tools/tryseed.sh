#!/bin/bash
# usage: tools/tryseed.sh <patch.diff> <property>...   — applies a seeded change to /repo, runs the checks, reverts.
set -u
patch=$1; shift
cd /repo || exit 2
if ! git diff --quiet; then echo "repo dirty"; exit 2; fi
git apply "$patch" || { echo "patch does not apply"; exit 2; }
export GOFLAGS=-mod=mod GOPROXY=off GOSUMDB=off GOTOOLCHAIN=local
go build ./... 2>&1 | head -3
for p in "$@"; do
  (cd /verif && out=$(bin/dsvc check $p 2>&1); echo "$out" | grep "^VIOLATION" | grep -v "obligation-missing" | sed 's/replay=[^ ]*//' | cut -c1-220 | head -12; echo "  (+ $(echo "$out" | grep -c "obligation-missing") ledger obligations missing)"; echo "$out" | grep "^dsvc"; )
done
git checkout -- . 
git status --short | head -3
